// Package simrt is the runtime of the deterministic simulation: a cooperative
// scheduler that lets exactly one worker goroutine run at a time and decides, from
// a seeded PRNG or from an explicit tape, at which instrumented block ("yield
// site") the baton moves and to whom; and Pool, a drop-in for sync.Pool whose
// every Get/Put decision (hit, miss, which object, keep, drop) is taken by the
// simulator.
//
// Everything that touches scheduler state is //go:norace and the baton hand-off
// is bracketed by runtime.RaceDisable/RaceEnable, so in a -race build the race
// detector sees only the synchronisation of the code under test.
package simrt

import "unsafe"

// Yield is called at the start of every instrumented basic block.
// With no simulation active it is one predictable branch.
//
//go:norace
func Yield(site uint32) {
	if active {
		yieldSlow(site)
	}
}

var active bool

// Seg is one entry of a schedule tape: worker W ran for N steps, then the baton
// moved to the worker of the following entry.
type Seg struct {
	W int   `json:"w"`
	N int64 `json:"n"`
	F bool  `json:"f,omitempty"` // the segment ended because the worker finished
}

// Preempt forces a context switch at the Visit-th execution (1-based, counted
// over the whole run) of yield site Site, to worker To (-1: scheduler's choice).
type Preempt struct {
	Site  uint32 `json:"site"`
	Visit uint32 `json:"visit"`
	To    int    `json:"to"`
}

// Policy kinds.
const (
	PolRandom = iota // geometric quanta with mean Mean steps, uniform next worker
	PolPCT           // priority scheduling with change points
	PolSerial        // never preempt (workers run to completion in id order)
	PolReplay        // follow Tape exactly
)

// Config describes one simulated run. Everything is explicit; the PRNG seeds are
// derived by the caller from the run seed.
type Config struct {
	Policy    int       `json:"policy"`
	Seed      uint64    `json:"seed"`                // scheduler PRNG
	Mean      int64     `json:"mean"`                // PolRandom: mean quantum (steps)
	Changes   []int64   `json:"changes"`             // PolPCT: step numbers of priority change points
	Prio      []int     `json:"prio"`                // PolPCT: initial priority per worker (higher runs first)
	Preempts  []Preempt `json:"preempts"`            // forced switches (any policy but replay)
	Tape      []Seg     `json:"tape"`                // PolReplay
	MaxSteps  int64     `json:"max_steps"`           // watchdog budget
	NumSites  int       `json:"num_sites"`           // size of the site table
	CountSite bool      `json:"count_site"`          // keep per-site visit counts
	HotSites  []uint32  `json:"hot_sites,omitempty"` // sites at which a switch is additionally taken with probability HotRate/65536
	HotRate   uint32    `json:"hot_rate,omitempty"`
}

// Result is what the scheduler measured.
type Result struct {
	Steps       int64
	Switches    int
	Tape        []Seg // the schedule actually followed (replayable)
	OverBudget  bool
	SwitchSites []uint32 // site at which each switch happened (parallel to Tape entries after the first)
	ForcedFired int
	SiteVisits  []uint32
	Blocks      int  // times a worker parked on a held simulated lock
	Deadlock    bool // every unfinished worker was blocked
}

type worker struct {
	id        int
	wake      chan struct{}
	done      bool
	fn        func()
	prio      int
	blockedOn unsafe.Pointer // non-nil while parked on a simulated lock
}

type sched struct {
	cfg      Config
	ws       []*worker
	cur      int
	steps    int64
	segStart int64
	nextAt   int64 // step number of the next voluntary switch
	rng      uint64
	res      Result
	tapePos  int
	changeIx int
	visits   []uint32
	forcedAt []bool // per site: some Preempt names it
	hotAt    []bool // per site: listed in HotSites
	allDone  chan struct{}
	lowPrio  int
}

var cur *sched

//go:norace
func (s *sched) rand() uint64 {
	s.rng += 0x9e3779b97f4a7c15
	z := s.rng
	z = (z ^ (z >> 30)) * 0xbf58476d1ce4e5b9
	z = (z ^ (z >> 27)) * 0x94d049bb133111eb
	return z ^ (z >> 31)
}

//go:norace
func (s *sched) geometric() int64 {
	m := s.cfg.Mean
	if m <= 1 {
		return 1
	}
	// inverse-CDF free approximation that needs no math import: sum of a coin flip
	// ladder would be slow; use a uniform in [1, 2m-1] (same mean, bounded).
	return 1 + int64(s.rand()%uint64(2*m-1))
}

//go:norace
func (s *sched) runnable() int {
	n := 0
	for _, w := range s.ws {
		if !w.done && w.blockedOn == nil {
			n++
		}
	}
	return n
}

// pick chooses who runs next when the current worker is preempted (self allowed)
// or has finished (self not runnable).
//
//go:norace
func (s *sched) pick() int {
	switch s.cfg.Policy {
	case PolPCT:
		best := -1
		for _, w := range s.ws {
			if !w.done && w.blockedOn == nil && (best < 0 || w.prio > s.ws[best].prio) {
				best = w.id
			}
		}
		return best
	case PolSerial:
		for _, w := range s.ws {
			if !w.done && w.blockedOn == nil {
				return w.id
			}
		}
		return -1
	case PolReplay:
		for s.tapePos < len(s.cfg.Tape) {
			w := s.cfg.Tape[s.tapePos].W
			if w >= 0 && w < len(s.ws) && !s.ws[w].done && s.ws[w].blockedOn == nil {
				return w
			}
			s.tapePos++
		}
		for _, w := range s.ws {
			if !w.done && w.blockedOn == nil {
				return w.id
			}
		}
		return -1
	}
	n := s.runnable()
	if n == 0 {
		return -1
	}
	k := int(s.rand() % uint64(n))
	for _, w := range s.ws {
		if !w.done && w.blockedOn == nil {
			if k == 0 {
				return w.id
			}
			k--
		}
	}
	return -1
}

// arm computes when the worker that now holds the baton will next be preempted.
//
//go:norace
func (s *sched) arm() {
	const never = int64(1) << 62
	switch s.cfg.Policy {
	case PolRandom:
		s.nextAt = s.steps + s.geometric()
	case PolPCT:
		if s.changeIx < len(s.cfg.Changes) {
			s.nextAt = s.cfg.Changes[s.changeIx]
			if s.nextAt <= s.steps {
				s.nextAt = s.steps + 1
			}
		} else {
			s.nextAt = never
		}
	case PolReplay:
		if s.tapePos < len(s.cfg.Tape) {
			s.nextAt = s.steps + s.cfg.Tape[s.tapePos].N
			if s.cfg.Tape[s.tapePos].F {
				s.nextAt = never
			}
		} else {
			s.nextAt = never
		}
	default:
		s.nextAt = never
	}
	if s.res.OverBudget {
		s.nextAt = s.steps + 100000
	}
}

//go:norace
func yieldSlow(site uint32) {
	s := cur
	if s == nil {
		return
	}
	s.steps++
	forced := -2
	if int(site) < len(s.visits) {
		s.visits[site]++
		if s.forcedAt[site] {
			v := s.visits[site]
			for _, p := range s.cfg.Preempts {
				if p.Site == site && p.Visit == v {
					forced = p.To
					break
				}
			}
		}
	}
	if forced == -2 && s.cfg.HotRate != 0 && int(site) < len(s.hotAt) && s.hotAt[site] && uint32(s.rand()&0xffff) < s.cfg.HotRate {
		forced = -1
	}
	if s.steps > 50*s.cfg.MaxSteps {
		// checked before the early return: under the serial policy (reference pass, warm-up)
		// nextAt is "never", and the budget must still end a runaway call
		panic("simrt: step budget exceeded 50x (livelock?)")
	}
	if s.steps < s.nextAt && forced == -2 {
		return
	}
	if s.steps > s.cfg.MaxSteps && !s.res.OverBudget {
		s.res.OverBudget = true
		s.cfg.Policy = PolRandom
		s.cfg.Mean = 100000
	}
	if s.steps > 50*s.cfg.MaxSteps {
		panic("simrt: step budget exceeded 50x (livelock?)")
	}
	var next int
	if forced >= 0 && forced < len(s.ws) && !s.ws[forced].done {
		next = forced
		s.res.ForcedFired++
	} else if forced != -2 {
		s.res.ForcedFired++
		// scheduler's choice, but prefer somebody else
		next = s.pick()
		if next == s.cur && s.runnable() > 1 {
			for i := 1; i < len(s.ws); i++ {
				c := (s.cur + i) % len(s.ws)
				if !s.ws[c].done {
					next = c
					break
				}
			}
		}
	} else {
		switch s.cfg.Policy {
		case PolPCT:
			// change point: the running worker drops below everybody
			s.changeIx++
			s.lowPrio--
			s.ws[s.cur].prio = s.lowPrio
			next = s.pick()
		case PolReplay:
			s.tapePos++
			next = s.pick()
		default:
			next = s.pick()
		}
	}
	s.switchTo(next, site)
}

//go:norace
func (s *sched) switchTo(next int, site uint32) {
	if next < 0 || next == s.cur {
		s.arm()
		return
	}
	s.res.Tape = appendSeg(s.res.Tape, Seg{W: s.cur, N: s.steps - s.segStart})
	s.res.SwitchSites = appendU32(s.res.SwitchSites, site)
	s.segStart = s.steps
	s.res.Switches++
	prev := s.cur
	s.cur = next
	s.arm()
	raceDisable()
	s.ws[next].wake <- struct{}{}
	<-s.ws[prev].wake
	raceEnable()
}

// finish is called by a worker goroutine when its function has returned.
//
//go:norace
func (s *sched) finish(w *worker) {
	w.done = true
	s.res.Tape = appendSeg(s.res.Tape, Seg{W: w.id, N: s.steps - s.segStart, F: true})
	s.res.SwitchSites = appendU32(s.res.SwitchSites, 0)
	s.segStart = s.steps
	if s.cfg.Policy == PolReplay && s.tapePos < len(s.cfg.Tape) && s.cfg.Tape[s.tapePos].W == w.id {
		s.tapePos++
	}
	next := s.pick()
	if next < 0 {
		for _, o := range s.ws {
			if !o.done {
				// the last runnable worker finished while others wait for a lock nobody
				// will release: release them, they panic out of their Lock (see mutex.go)
				s.deadlock()
				next = s.pick()
				break
			}
		}
	}
	if next < 0 {
		raceDisable()
		s.allDone <- struct{}{}
		raceEnable()
		return
	}
	s.cur = next
	s.arm()
	raceDisable()
	s.ws[next].wake <- struct{}{}
	raceEnable()
}

// Run executes fns as workers 0..n-1 under the schedule described by cfg and
// returns when all of them have returned. Exactly one worker runs at any time.
// fns must not panic (wrap them).
//
//go:norace
func Run(cfg Config, fns []func()) Result {
	s := &sched{cfg: cfg, rng: cfg.Seed, allDone: make(chan struct{}, 1)}
	if cfg.MaxSteps <= 0 {
		s.cfg.MaxSteps = 1 << 40
	}
	s.visits = make([]uint32, cfg.NumSites)
	s.forcedAt = make([]bool, cfg.NumSites)
	for _, p := range cfg.Preempts {
		if int(p.Site) < len(s.forcedAt) {
			s.forcedAt[p.Site] = true
		}
	}
	s.hotAt = make([]bool, cfg.NumSites)
	for _, h := range cfg.HotSites {
		if int(h) < len(s.hotAt) {
			s.hotAt[h] = true
		}
	}
	done := make(chan struct{}, len(fns))
	for i, f := range fns {
		w := &worker{id: i, wake: make(chan struct{}, 1), fn: f}
		if i < len(cfg.Prio) {
			w.prio = cfg.Prio[i]
		}
		s.ws = append(s.ws, w)
	}
	if len(fns) == 0 {
		return s.res
	}
	for _, w := range s.ws {
		go workerMain(s, w, done)
	}
	cur = s
	first := s.pick()
	s.cur = first
	s.arm()
	active = true
	raceDisable()
	s.ws[first].wake <- struct{}{}
	<-s.allDone
	raceEnable()
	active = false
	cur = nil
	// real happens-before edges from every worker to the caller, after the run
	for range fns {
		<-done
	}
	s.res.Steps = s.steps
	if cfg.CountSite {
		s.res.SiteVisits = s.visits
	}
	return s.res
}

func workerMain(s *sched, w *worker, done chan struct{}) {
	parkFirst(w)
	w.fn()
	s.finish(w)
	done <- struct{}{}
}

//go:norace
func parkFirst(w *worker) {
	raceDisable()
	<-w.wake
	raceEnable()
}

// Steps returns the logical time of the running simulation (0 if none).
//
//go:norace
func Steps() int64 {
	if cur == nil {
		return 0
	}
	return cur.steps
}

// Current returns the id of the worker holding the baton (-1 if none).
//
//go:norace
func Current() int {
	if cur == nil {
		return -1
	}
	return cur.cur
}
