package simrt

// Slice helpers that never call the runtime's race-instrumented helpers
// (growslice, slicecopy report their accesses to the race detector even when the
// caller is //go:norace). Scheduler and pool bookkeeping is touched by every
// worker goroutine without any happens-before edge the detector can see, so it
// must stay invisible to it.

//go:norace
func appendSeg(s []Seg, v Seg) []Seg {
	if len(s) == cap(s) {
		n := make([]Seg, len(s), 2*cap(s)+64)
		for i := range s {
			n[i] = s[i]
		}
		s = n
	}
	s = s[:len(s)+1]
	s[len(s)-1] = v
	return s
}

//go:norace
func appendU32(s []uint32, v uint32) []uint32 {
	if len(s) == cap(s) {
		n := make([]uint32, len(s), 2*cap(s)+64)
		for i := range s {
			n[i] = s[i]
		}
		s = n
	}
	s = s[:len(s)+1]
	s[len(s)-1] = v
	return s
}

//go:norace
func appendI32(s []int32, v int32) []int32 {
	if len(s) == cap(s) {
		n := make([]int32, len(s), 2*cap(s)+64)
		for i := range s {
			n[i] = s[i]
		}
		s = n
	}
	s = s[:len(s)+1]
	s[len(s)-1] = v
	return s
}

//go:norace
func appendAny(s []any, v any) []any {
	if len(s) == cap(s) {
		n := make([]any, len(s), 2*cap(s)+8)
		for i := range s {
			n[i] = s[i]
		}
		s = n
	}
	s = s[:len(s)+1]
	s[len(s)-1] = v
	return s
}

//go:norace
func appendPool(s []*Pool, v *Pool) []*Pool {
	if len(s) == cap(s) {
		n := make([]*Pool, len(s), 2*cap(s)+8)
		for i := range s {
			n[i] = s[i]
		}
		s = n
	}
	s = s[:len(s)+1]
	s[len(s)-1] = v
	return s
}
