//go:build !race

package simrt

import "unsafe"

// RaceEnabled reports whether the binary was built with -race.
const RaceEnabled = false

func raceDisable()                    {}
func raceEnable()                     {}
func raceAcquire(unsafe.Pointer)      {}
func raceReleaseMerge(unsafe.Pointer) {}

// RaceErrors returns the number of races reported so far in this process.
func RaceErrors() int { return 0 }
