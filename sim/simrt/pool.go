package simrt

import "unsafe"

// Pool is a drop-in for sync.Pool (same New field, same Get/Put) whose behaviour
// is decided by the simulator: contract "Get returns some object previously Put
// and not yet handed out, or New(); any stored object may vanish at any time".
type Pool struct {
	New func() any
	st  *poolState
}

type poolState struct {
	epoch uint64
	id    int
	items []any
}

// PoolConfig is the fault plan for all pools during one epoch (one simulated run).
// Rates are in 1/65536 units. With Tape set, decisions are read from it instead
// (replay); an exhausted tape means fault-free.
type PoolConfig struct {
	Seed     uint64  `json:"seed"`
	DropRate uint32  `json:"drop"` // Put discards the object
	MissRate uint32  `json:"miss"` // Get calls New although objects are stored
	AnyRate  uint32  `json:"any"`  // Get takes an arbitrary stored object instead of the newest
	Tape     []int32 `json:"tape,omitempty"`
	Replay   bool    `json:"replay,omitempty"`
}

// PoolStats counts what actually happened.
type PoolStats struct {
	Gets, Puts, News, Drops, Misses, Reorders int
}

var (
	poolEpoch uint64 = 1
	poolCfg   PoolConfig
	poolRng   uint64
	poolTape  []int32 // recorded decisions
	poolPos   int
	poolStats PoolStats
	pools     []*Pool
	poolSync  [128]uint64
)

// Decision encoding on the tape: Put: 0 keep, 1 drop. Get: -1 miss, k>=0 take the
// item at index len-1-k (0 = newest).

// PoolEpoch starts a new epoch: every pool forgets its content when next touched,
// statistics and the decision tape restart, and cfg governs faults from now on.
//
//go:norace
func PoolEpoch(cfg PoolConfig) {
	poolEpoch++
	poolCfg = cfg
	poolRng = cfg.Seed
	poolTape = poolTape[:0]
	poolPos = 0
	poolStats = PoolStats{}
	pools = pools[:0]
}

// PoolPhase starts a new phase inside the current epoch: pools keep their content,
// but the fault plan, the statistics and the recorded decision tape restart.
//
//go:norace
func PoolPhase(cfg PoolConfig) {
	poolCfg = cfg
	poolRng = cfg.Seed
	poolTape = poolTape[:0]
	poolPos = 0
	poolStats = PoolStats{}
}

// PoolFlush discards the content of every pool touched in this epoch (what a
// garbage collection does to sync.Pool).
//
//go:norace
func PoolFlush() {
	for _, p := range pools {
		if p.st != nil {
			for i := range p.st.items {
				p.st.items[i] = nil
			}
			p.st.items = p.st.items[:0]
		}
	}
}

// PoolSetFaults changes the fault rates inside an epoch (e.g. fault-free
// reference phase, then faulty concurrent phase) without forgetting content.
//
//go:norace
func PoolSetFaults(drop, miss, any uint32) {
	poolCfg.DropRate, poolCfg.MissRate, poolCfg.AnyRate = drop, miss, any
}

//go:norace
func PoolReport() (PoolStats, []int32) {
	out := make([]int32, len(poolTape))
	for i := range poolTape {
		out[i] = poolTape[i]
	}
	return poolStats, out
}

// Pools returns the pools touched in this epoch, in order of first use.
//
//go:norace
func Pools() []*Pool { return pools }

// Items returns the objects currently stored in the pool (oldest first).
//
//go:norace
func (p *Pool) Items() []any {
	if p.st == nil || p.st.epoch != poolEpoch {
		return nil
	}
	return p.st.items
}

//go:norace
func poolRand() uint32 {
	poolRng += 0x9e3779b97f4a7c15
	z := poolRng
	z = (z ^ (z >> 30)) * 0xbf58476d1ce4e5b9
	z = (z ^ (z >> 27)) * 0x94d049bb133111eb
	return uint32((z ^ (z >> 31)) >> 16 & 0xffff)
}

//go:norace
func (p *Pool) state() *poolState {
	st := p.st
	if st == nil {
		st = &poolState{}
		p.st = st
	}
	if st.epoch != poolEpoch {
		for i := range st.items {
			st.items[i] = nil
		}
		st.items = st.items[:0]
		st.epoch = poolEpoch
		st.id = len(pools)
		pools = appendPool(pools, p)
	}
	return st
}

//go:norace
func syncAddr(x any) unsafe.Pointer {
	ptr := uintptr((*[2]unsafe.Pointer)(unsafe.Pointer(&x))[1])
	h := (uint64(ptr) * 0x9e3779b97f4a7c15) >> 57
	return unsafe.Pointer(&poolSync[h])
}

// Put adds x to the pool (or drops it, if the fault plan says so).
//
//go:norace
func (p *Pool) Put(x any) {
	if x == nil {
		return
	}
	Yield(1)
	st := p.state()
	poolStats.Puts++
	d := int32(0)
	if poolCfg.Replay {
		if poolPos < len(poolCfg.Tape) {
			d = poolCfg.Tape[poolPos]
		}
		poolPos++
	} else if poolCfg.DropRate != 0 && poolRand() < poolCfg.DropRate {
		d = 1
	}
	poolTape = appendI32(poolTape, d)
	if d == 1 {
		poolStats.Drops++
		return
	}
	if RaceEnabled {
		raceReleaseMerge(syncAddr(x))
	}
	st.items = appendAny(st.items, x)
}

// Get removes and returns a stored object, or calls New.
//
//go:norace
func (p *Pool) Get() any {
	Yield(2)
	st := p.state()
	poolStats.Gets++
	n := len(st.items)
	d := int32(0)
	if poolCfg.Replay {
		if poolPos < len(poolCfg.Tape) {
			d = poolCfg.Tape[poolPos]
		}
		poolPos++
		if d >= int32(n) {
			d = int32(n) - 1 // n==0 gives -1: miss
		}
	} else if n == 0 {
		d = -1
	} else if poolCfg.MissRate != 0 && poolRand() < poolCfg.MissRate {
		d = -1
		poolStats.Misses++
	} else if n > 1 && poolCfg.AnyRate != 0 && poolRand() < poolCfg.AnyRate {
		d = int32(poolRand() % uint32(n))
		if d != 0 {
			poolStats.Reorders++
		}
	}
	poolTape = appendI32(poolTape, d)
	if d < 0 {
		poolStats.News++
		if p.New != nil {
			return p.New()
		}
		return nil
	}
	i := n - 1 - int(d)
	x := st.items[i]
	for j := i; j < n-1; j++ {
		st.items[j] = st.items[j+1]
	}
	st.items[n-1] = nil
	st.items = st.items[:n-1]
	if RaceEnabled {
		raceAcquire(syncAddr(x))
	}
	return x
}
