package simrt

import (
	"sync"
	"unsafe"
)

// Mutex is a drop-in for sync.Mutex (the instrumenter rewrites the type
// expression). Outside a simulated run it is a plain mutex. Inside one, exactly one
// worker runs at a time, so the lock is a flag: Lock on a held mutex parks the
// worker as *blocked* and hands the baton to a runnable one; Unlock makes the
// waiters runnable again. A yield point right after every successful Lock lets the
// scheduler preempt a worker while it holds the lock - the only way a TryLock can
// fail or a critical section can be observed half-done. The race detector is told
// what sync.Mutex tells it (acquire on Lock, release on Unlock).
type Mutex struct {
	mu     sync.Mutex
	held   bool
	holder int
}

// Yield site ids reserved for the mutex.
const (
	siteLockAcquired = 3
	siteUnlock       = 4
)

//go:norace
func (m *Mutex) Lock() {
	if !active || cur == nil {
		m.mu.Lock()
		return
	}
	s := cur
	for m.held {
		if s.res.Deadlock {
			panic(DeadlockPanic)
		}
		s.block(unsafe.Pointer(m))
	}
	m.held = true
	m.holder = s.cur
	if RaceEnabled {
		raceAcquire(unsafe.Pointer(m))
	}
	Yield(siteLockAcquired)
}

//go:norace
func (m *Mutex) TryLock() bool {
	if !active || cur == nil {
		return m.mu.TryLock()
	}
	if m.held {
		return false
	}
	m.held = true
	m.holder = cur.cur
	if RaceEnabled {
		raceAcquire(unsafe.Pointer(m))
	}
	Yield(siteLockAcquired)
	return true
}

//go:norace
func (m *Mutex) Unlock() {
	if !active || cur == nil {
		m.mu.Unlock()
		return
	}
	if RaceEnabled {
		raceReleaseMerge(unsafe.Pointer(m))
	}
	m.held = false
	cur.unblock(unsafe.Pointer(m))
	Yield(siteUnlock)
}

// RWMutex is a drop-in for sync.RWMutex; in simulation readers and writers both
// take the lock exclusively (a legal, more serial behaviour of a RWMutex).
type RWMutex struct{ Mutex }

func (m *RWMutex) RLock()         { m.Lock() }
func (m *RWMutex) RUnlock()       { m.Unlock() }
func (m *RWMutex) TryRLock() bool { return m.TryLock() }

// block parks the running worker until addr is unblocked; if every other worker is
// blocked or finished the run is deadlocked, which is recorded and resolved by
// letting the caller proceed (the harness reports it).
//
//go:norace
func (s *sched) block(addr unsafe.Pointer) {
	w := s.ws[s.cur]
	w.blockedOn = addr
	if s.cfg.Policy == PolReplay {
		s.tapePos++
	}
	next := -1
	// prefer the scheduler's policy among runnable, unblocked workers
	for tries := 0; tries < 4*len(s.ws); tries++ {
		c := s.pick()
		if c >= 0 && c != s.cur && s.ws[c].blockedOn == nil && !s.ws[c].done {
			next = c
			break
		}
	}
	if next < 0 {
		for _, o := range s.ws {
			if !o.done && o.blockedOn == nil && o.id != s.cur {
				next = o.id
				break
			}
		}
	}
	if next < 0 {
		// Deadlock. The calls involved can never return; make that observable instead
		// of hanging the simulation: every blocked worker is released in turn and
		// panics out of its Lock (the harness records the panic as the call's result,
		// which no alone-run produces).
		s.deadlock()
		w.blockedOn = nil
		panic(DeadlockPanic)
	}
	s.res.Blocks++
	s.switchTo(next, siteLockAcquired)
	w.blockedOn = nil
	if s.res.Deadlock {
		panic(DeadlockPanic)
	}
}

// DeadlockPanic is the value a worker panics with when the simulated run deadlocked.
const DeadlockPanic = "simrt: deadlock: the call can never return (every unfinished caller is blocked on a lock)"

//go:norace
func (s *sched) deadlock() {
	s.res.Deadlock = true
	for _, o := range s.ws {
		o.blockedOn = nil
	}
}

//go:norace
func (s *sched) unblock(addr unsafe.Pointer) {
	for _, o := range s.ws {
		if o.blockedOn == addr {
			o.blockedOn = nil
		}
	}
}
