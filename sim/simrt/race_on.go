//go:build race

package simrt

import (
	"runtime"
	"unsafe"
)

// RaceEnabled reports whether the binary was built with -race.
const RaceEnabled = true

//go:norace
func raceDisable() { runtime.RaceDisable() }

//go:norace
func raceEnable() { runtime.RaceEnable() }

//go:norace
func raceAcquire(p unsafe.Pointer) { runtime.RaceAcquire(p) }

//go:norace
func raceReleaseMerge(p unsafe.Pointer) { runtime.RaceReleaseMerge(p) }

// RaceErrors returns the number of races reported so far in this process.
//
//go:norace
func RaceErrors() int { return runtime.RaceErrors() }
