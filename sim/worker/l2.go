package main

// Engine "l2": histories on the recycled structures themselves. One lazy.DFACache per
// lazy DFA of a compiled engine (forward, reverse, the reverse searchers' own DFAs) is
// kept across a seeded sequence of searches - exactly the reuse protocol meta follows
// (one cache per SearchState, never Reset) - and every call is compared with the same
// call on a brand-new cache of the same DFA. Small capacities make fills, clears and an
// exhausted clear budget happen within a dozen short searches, and the entry points
// meta mixes on one cache (unanchored, anchored, is-match, at>0, reverse, reverse
// limited) are mixed here on purpose. Reported under C13: its anchors are these caches.

import (
	"encoding/hex"
	"encoding/json"
	"fmt"
	"os"
	"sort"
	"time"

	"github.com/coregx/coregex/dfa/lazy"
	"github.com/coregx/coregex/nfa"
)

type L2Step struct {
	Role string `json:"role"` // which DFA of the engine (VerifDFAs key)
	Call string `json:"call"`
	H    int    `json:"h"`
	At   int    `json:"at,omitempty"`  // forward: start offset; reverse: start bound
	End  int    `json:"end,omitempty"` // reverse: end (exclusive)
	Min  int    `json:"min,omitempty"` // reverse limited: minStart
}

type L2Scenario struct {
	Engine  string   `json:"engine"`
	Prop    string   `json:"prop"`
	Seed    uint64   `json:"seed"`
	Index   int      `json:"index"`
	Pattern string   `json:"pattern"`
	Knobs   Knobs    `json:"knobs"`
	Hays    []string `json:"hays_hex"`
	Steps   []L2Step `json:"steps"`
}

type L2Outcome struct {
	Class      string       `json:"class"` // "" | result | invariant | compile
	Violations []HViolation `json:"violations,omitempty"`
	Strategy   string
	Checked    int
	GaveUp     int // calls in which the aged or the fresh cache declined to answer (legal; not compared)
	Diverged   int // aged != fresh but == what a new cache of default capacity, or the DFA's NFA fallback, answers (depends on which engine ran: pure)
	Clears          int
	Roles           []string
	PrefilterMisses bool `json:"prefilter_misses_match,omitempty"` // see HOutcome
	AccelOverDead   bool `json:"accel_over_dead,omitempty"`        // the failing call's reused cache holds an accelerated state with a dead transition
}

// SearchFirstAt is left out: no code path of meta or coregex calls it (the first L2 batch
// showed it answering differently on a reused cache - a finding outside every claimed
// property, recorded in DESIGN.md 9.2).
var fwdCalls = []string{"Find", "FindAt", "SearchAt", "SearchAtAnchored", "IsMatch", "IsMatchAt"}
// role "pvm": one nfa.PikeVM instance reused (meta keeps one per SearchState); role "bt":
// one nfa.BacktrackerState reused by the engine's backtrackers (UTF-8 and ASCII automaton
// share it in meta).
var pvmCalls = []string{"Search", "IsMatch", "SearchAt", "SearchBetween", "CapturesAt", "CapturesInSpan", "SlotIsMatchAt", "SlotFindAt", "SlotCapturesAt", "SetLongest"}
var btCalls = []string{"IsMatch", "IsMatchAnchored", "Search", "SearchAt"}
var revCalls = []string{"SearchReverse", "SearchReverseLimited", "TryIsMatchReverse"}

func isRevRole(role string) bool {
	return role == "rev" || (len(role) > 4 && role[len(role)-4:] == ".rev")
}

func genL2(seed uint64, index int, tier string) *L2Scenario {
	r := newRng(seed)
	sc := &L2Scenario{Engine: "l2", Prop: "C13", Seed: seed, Index: index}
	pr := r.fork(1)
	sc.Pattern = pickPattern(pr)
	if pr.p(1, 4) {
		sc.Pattern = mutatePattern(pr, sc.Pattern)
	}
	kr := r.fork(2)
	sc.Knobs = Knobs{}
	switch kr.n(8) {
	case 0: // library defaults
	default:
		sc.Knobs.DFACap = pick(kr, []int{200, 300, 400, 700, 1200, 2500, 6000, 20000, 65536})
		sc.Knobs.MaxClears = 1 + pick(kr, []int{0, 1, 2, 5, 5, 1000})
	}
	if kr.p(1, 6) {
		sc.Knobs.DetLimit = pick(kr, []int{10, 50})
	}
	sc.Knobs.NoPrefilter = kr.p(1, 6)
	sc.Knobs.NoASCII = kr.p(1, 6)
	re, err := compile(sc.Pattern, sc.Knobs)
	if err != nil {
		return sc
	}
	dfas := re.VerifEngine().VerifDFAs()
	var roles []string
	for k := range dfas {
		roles = append(roles, k)
	}
	sort.Strings(roles)
	roles = append(roles, "pvm")
	for i := range re.VerifEngine().VerifBacktrackers() {
		roles = append(roles, fmt.Sprintf("bt%d", i))
	}
	sre := parsePattern(sc.Pattern)
	genASCII = r.fork(9).p(1, 3)
	alpha := patternAlphabet(sc.Pattern)
	hr := r.fork(3)
	nh := hr.between(2, 6)
	for i := 0; i < nh; i++ {
		cls := pick(hr, []int{0, 1, 1, 2, 2, 2, 3})
		sc.Hays = append(sc.Hays, hex.EncodeToString(genHaystack(hr, sc.Pattern, sre, alpha, cls)))
	}
	or := r.fork(4)
	n := or.between(6, 60)
	if tier == "thorough" {
		n = or.between(6, 150)
	}
	for i := 0; i < n; i++ {
		role := pick(or, roles)
		h := or.n(nh)
		l := len(sc.Hays[h]) / 2
		st := L2Step{Role: role, H: h}
		if role == "pvm" || role[:2] == "bt" {
			if role == "pvm" {
				st.Call = pick(or, pvmCalls)
			} else {
				st.Call = pick(or, btCalls)
			}
			if l > 0 && or.p(1, 2) {
				st.At = or.n(l + 1)
			}
			st.End = l
			if l > st.At && or.p(1, 2) {
				st.End = or.between(st.At, l)
			}
		} else if isRevRole(role) {
			st.Call = pick(or, revCalls)
			st.End = l
			if l > 0 && or.p(1, 2) {
				st.End = or.between(0, l)
			}
			if st.End > 0 && or.p(1, 3) {
				st.At = or.n(st.End + 1)
			}
			st.Min = st.At
			if st.End > st.At && or.p(1, 2) {
				st.Min = or.between(st.At, st.End)
			}
		} else {
			st.Call = pick(or, fwdCalls)
			if l > 0 && or.p(1, 2) {
				st.At = or.n(l + 1)
			}
		}
		sc.Steps = append(sc.Steps, st)
	}
	return sc
}

const l2GaveUp = "gave-up"

// l2Call runs one call of the lazy DFA on the given cache and renders the result.
func l2Call(d *lazy.DFA, c *lazy.DFACache, st *L2Step, h []byte) (res string) {
	defer func() {
		if p := recover(); p != nil {
			res = fmt.Sprintf("PANIC: %v", p)
		}
	}()
	at := clampAt(st.At, len(h))
	switch st.Call {
	case "Find":
		return fmt.Sprint(d.Find(c, h))
	case "FindAt":
		return fmt.Sprint(d.FindAt(c, h, at))
	case "SearchAt":
		return fmt.Sprint(d.SearchAt(c, h, at))
	case "SearchAtAnchored":
		return fmt.Sprint(d.SearchAtAnchored(c, h, at))
	case "IsMatch":
		return fmt.Sprint(d.IsMatch(c, h))
	case "IsMatchAt":
		return fmt.Sprint(d.IsMatchAt(c, h, at))
	case "SearchFirstAt":
		return fmt.Sprint(d.SearchFirstAt(c, h, at))
	case "SearchReverse":
		v := d.SearchReverse(c, h, at, clampAt(st.End, len(h)))
		if v == lazy.SearchReverseLimitedQuadratic {
			return l2GaveUp
		}
		return fmt.Sprint(v)
	case "SearchReverseLimited":
		v := d.SearchReverseLimited(c, h, at, clampAt(st.End, len(h)), clampAt(st.Min, len(h)))
		if v == lazy.SearchReverseLimitedQuadratic {
			// also the legitimate "scan reached minStart" answer; the comparison below
			// treats it as a wildcard on either side
			return l2GaveUp
		}
		return fmt.Sprint(v)
	case "TryIsMatchReverse":
		m, ok := d.TryIsMatchReverse(c, h, at, clampAt(st.End, len(h)))
		if !ok {
			return l2GaveUp
		}
		return fmt.Sprint(m)
	}
	return "unknown call " + st.Call
}

func renderNC(m *nfa.MatchWithCaptures) string {
	if m == nil {
		return "nil"
	}
	return fmt.Sprint(m.Start, m.End, m.Captures)
}

// pvmCall runs one call on a PikeVM instance. SetLongest is handled by the caller.
func pvmCall(p *nfa.PikeVM, st *L2Step, h []byte) (res string) {
	defer func() {
		if r := recover(); r != nil {
			res = fmt.Sprintf("PANIC: %v", r)
		}
	}()
	at := clampAt(st.At, len(h))
	end := clampAt(st.End, len(h))
	if end < at {
		end = at
	}
	switch st.Call {
	case "Search":
		return fmt.Sprint(p.Search(h))
	case "IsMatch":
		return fmt.Sprint(p.IsMatch(h))
	case "SearchAt":
		return fmt.Sprint(p.SearchAt(h, at))
	case "SearchBetween":
		return fmt.Sprint(p.SearchBetween(h, at, end))
	case "CapturesAt":
		return renderNC(p.SearchWithCapturesAt(h, at))
	case "CapturesInSpan":
		// only defined when a match is known to exist in the span: ask first, like meta does
		if _, _, ok := p.SearchAt(h[:end], at); !ok {
			return "no-match-in-span"
		}
		return renderNC(p.SearchWithCapturesInSpan(h, at, end))
	case "SlotIsMatchAt":
		return fmt.Sprint(p.SearchWithSlotTableAt(h, at, nfa.SearchModeIsMatch))
	case "SlotFindAt":
		return fmt.Sprint(p.SearchWithSlotTableAt(h, at, nfa.SearchModeFind))
	case "SlotCapturesAt":
		return renderNC(p.SearchWithSlotTableCapturesAt(h, at))
	}
	return "unknown call " + st.Call
}

func isASCIIBytes(h []byte) bool {
	for _, c := range h {
		if c >= 0x80 {
			return false
		}
	}
	return true
}

func btCall(b *nfa.BoundedBacktracker, state *nfa.BacktrackerState, st *L2Step, h []byte) (res string) {
	defer func() {
		if r := recover(); r != nil {
			res = fmt.Sprintf("PANIC: %v", r)
		}
	}()
	at := clampAt(st.At, len(h))
	switch st.Call {
	case "IsMatch":
		return fmt.Sprint(b.IsMatchWithState(h, state))
	case "IsMatchAnchored":
		return fmt.Sprint(b.IsMatchAnchoredWithState(h, state))
	case "Search":
		return fmt.Sprint(b.SearchWithState(h, state))
	case "SearchAt":
		return fmt.Sprint(b.SearchAtWithState(h, at, state))
	}
	return "unknown call " + st.Call
}

func runL2(sc *L2Scenario) *L2Outcome {
	out := &L2Outcome{}
	re, err := compile(sc.Pattern, sc.Knobs)
	if err != nil || len(sc.Steps) == 0 {
		out.Class = "compile"
		return out
	}
	out.Strategy = re.VerifEngine().Strategy().String()
	dfas := re.VerifEngine().VerifDFAs()
	// the same pattern with the library's default cache capacity: a reference for "which
	// engine answered" (a tiny cache sends a search to the NFA fallback, a big one does not)
	kd := sc.Knobs
	kd.DFACap, kd.MaxClears = 0, 0
	var dfasDefault, dfasNFA map[string]*lazy.DFA
	if red, err := compile(sc.Pattern, kd); err == nil {
		dfasDefault = red.VerifEngine().VerifDFAs()
	}
	// ... and with a cache too small for a start state: every search is answered by the
	// DFA's own NFA fallback, which is what a cache with an exhausted clear budget does
	kn := sc.Knobs
	kn.DFACap, kn.MaxClears = 1, 1
	if ren, err := compile(sc.Pattern, kn); err == nil {
		dfasNFA = ren.VerifEngine().VerifDFAs()
	}
	hb := make([][]byte, len(sc.Hays))
	for i, h := range sc.Hays {
		b, err := hex.DecodeString(h)
		if err != nil {
			panic(err)
		}
		hb[i] = b
	}
	aged := map[string]*lazy.DFACache{}
	for k, d := range dfas {
		aged[k] = d.NewCache()
		out.Roles = append(out.Roles, k)
	}
	sort.Strings(out.Roles)
	// NFA-level roles
	var agedPVM *nfa.PikeVM
	var nfaObj *nfa.NFA
	pvmLongest := false
	if n, err := nfa.NewDefaultCompiler().Compile(sc.Pattern); err == nil {
		nfaObj = n
		agedPVM = nfa.NewPikeVM(n)
	}
	bts := re.VerifEngine().VerifBacktrackers()
	agedBT := nfa.NewBacktrackerState()
	for si := range sc.Steps {
		st := &sc.Steps[si]
		if st.H >= len(hb) {
			continue
		}
		if st.Role == "pvm" || (len(st.Role) > 2 && st.Role[:2] == "bt") {
			h := hb[st.H]
			var got, want, again string
			if st.Role == "pvm" {
				if agedPVM == nil {
					continue
				}
				if st.Call == "SetLongest" {
					pvmLongest = !pvmLongest
					agedPVM.SetLongest(pvmLongest)
					continue
				}
				got = pvmCall(agedPVM, st, h)
				fresh := nfa.NewPikeVM(nfaObj)
				fresh.SetLongest(pvmLongest)
				want = pvmCall(fresh, st, h)
				again = pvmCall(agedPVM, st, h)
			} else {
				var idx int
				fmt.Sscanf(st.Role, "bt%d", &idx)
				if idx >= len(bts) {
					continue
				}
				b := bts[idx]
				// meta's own guards: capacity, and the ASCII automaton only on 7-bit input
				if !b.CanHandle(len(h)) || (idx == 1 && !isASCIIBytes(h)) {
					continue
				}
				got = btCall(b, agedBT, st, h)
				want = btCall(b, nfa.NewBacktrackerState(), st, h)
				again = btCall(b, agedBT, st, h)
			}
			out.Checked++
			if got != want {
				out.Violations = append(out.Violations, HViolation{Step: si, Kind: "result",
					What: fmt.Sprintf("%s %s(h%d len %d, at %d, end %d) on reused state differs from the same call on new state", st.Role, st.Call, st.H, len(h), st.At, st.End), Got: got, Want: want})
			} else if again != got {
				out.Violations = append(out.Violations, HViolation{Step: si, Kind: "repeat",
					What: fmt.Sprintf("%s %s(h%d) repeated on the same state gives another answer", st.Role, st.Call, st.H), Got: again, Want: got})
			}
			if len(out.Violations) >= 3 {
				break
			}
			continue
		}
		d := dfas[st.Role]
		if d == nil {
			continue
		}
		h := hb[st.H]
		got := l2Call(d, aged[st.Role], st, h)
		want := l2Call(d, d.NewCache(), st, h)
		out.Checked++
		// pureAnswer: ans is what a new cache of default capacity, or the DFA's own NFA
		// fallback, gives for this call - the reused cache answered like *some* new cache,
		// and the difference is a divergence between engines (pure), not stale state
		pureAnswer := func(ans string) bool {
			if dd := dfasDefault[st.Role]; dd != nil {
				if alt := l2Call(dd, dd.NewCache(), st, h); alt == ans {
					return true
				}
			}
			if dd := dfasNFA[st.Role]; dd != nil {
				// a one-byte cache admits exactly one state; after one throw-away search it
				// is full with no clear budget, so the call below is answered by the NFA
				c := dd.NewCache()
				if isRevRole(st.Role) {
					dd.SearchReverse(c, []byte("\x00"), 0, 1)
				} else {
					dd.SearchAt(c, []byte("\x00"), 0)
				}
				if alt := l2Call(dd, c, st, h); alt == ans {
					return true
				}
			}
			return false
		}
		if got == l2GaveUp || want == l2GaveUp {
			out.GaveUp++
		} else if got != want {
			if pureAnswer(got) {
				out.Diverged++
			} else {
				out.Violations = append(out.Violations, HViolation{Step: si, Kind: "result",
					What: fmt.Sprintf("lazy DFA %q %s(h%d len %d, at %d, end %d) on a reused cache differs from the same call on a new cache", st.Role, st.Call, st.H, len(h), st.At, st.End),
					Got:  got, Want: want})
				if len(out.Violations) >= 3 {
					break
				}
			}
		}
		// repeating the call on the aged cache must give the same answer (or, again, the
		// answer of some new cache)
		if again := l2Call(d, aged[st.Role], st, h); again != got && again != l2GaveUp && got != l2GaveUp && again != want {
			if pureAnswer(again) {
				out.Diverged++
			} else {
				out.Violations = append(out.Violations, HViolation{Step: si, Kind: "repeat",
					What: fmt.Sprintf("lazy DFA %q %s(h%d) repeated on the same cache gives another answer", st.Role, st.Call, st.H), Got: again, Want: got})
			}
		}
		info := aged[st.Role].VerifInfo()
		if info.ClearCount > out.Clears {
			out.Clears = info.ClearCount
		}
	}
	if len(out.Violations) > 0 {
		out.Class = "result"
		if v := out.Violations[0]; v.Step < len(sc.Steps) && sc.Steps[v.Step].H < len(hb) {
			out.PrefilterMisses = prefilterMissesMatch(sc.Pattern, sc.Knobs, hb[sc.Steps[v.Step].H])
			if c := aged[sc.Steps[v.Step].Role]; c != nil && c.VerifAccelOverDead() > 0 {
				out.AccelOverDead = true
			}
		}
	}
	return out
}

func l2Batch(base uint64, from, to int, tier string, budget time.Duration, start time.Time, emit func(any)) {
	sum := &Summary{Kind: "summary", Engine: "l2", From: from, To: to, Failures: map[string]int{}, Policies: map[string]int{}, Strategies: map[string]int{},
		Cells: map[string]int{}, Knobs: map[string]int{}, Probes: map[string]int64{}, Extra: map[string]any{}}
	checked, gaveUp, div, withClears := 0, 0, 0, 0
	calls := map[string]int{}
	for i := from; i < to; i++ {
		if budget > 0 && time.Since(start) > budget {
			sum.To = i
			break
		}
		seed := runSeed(base, i)
		sc := genL2(seed, i, tier)
		out := runL2(sc)
		if out.Class == "compile" {
			continue
		}
		sum.Runs++
		sum.Strategies[out.Strategy]++
		checked += out.Checked
		gaveUp += out.GaveUp
		div += out.Diverged
		if out.Clears > 0 {
			withClears++
		}
		for _, st := range sc.Steps {
			calls[st.Role+"|"+st.Call]++
		}
		if out.Clears > 0 {
			h := newHasher()
			h.str(sc.Pattern)
			b, _ := json.Marshal(sc.Knobs)
			h.str(string(b))
			b, _ = json.Marshal(sc.Steps)
			h.str(string(b))
			sum.Nontrivial = append(sum.Nontrivial, uint64(h))
		}
		if len(sum.Samples) < 2 && out.Clears > 0 {
			steps := sc.Steps
			if len(steps) > 12 {
				steps = steps[:12]
			}
			sum.Samples = append(sum.Samples, map[string]any{"index": i, "seed": seed, "pattern": sc.Pattern, "knobs": sc.Knobs, "roles": out.Roles, "first_steps": steps, "max_clear_count": out.Clears})
		}
		if out.Class != "" {
			sum.Failures[out.Class]++
			emit(FailLine{Kind: "failure", Engine: "l2", Index: i, Seed: seed, Outcome: out, Scenario: sc})
		}
	}
	sum.Extra["l2_checked_calls"] = checked
	sum.Extra["l2_gave_up_not_compared"] = gaveUp
	sum.Extra["l2_pure_divergence"] = div
	sum.Extra["l2_histories_with_cache_clear"] = withClears
	sum.Extra["l2_role_x_call"] = calls
	sum.WallS = time.Since(start).Seconds()
	emit(sum)
}

func loadL2(path string) (*L2Scenario, error) {
	b, err := os.ReadFile(path)
	if err != nil {
		return nil, err
	}
	var rf struct {
		Scenario *L2Scenario `json:"scenario"`
	}
	if err := json.Unmarshal(b, &rf); err != nil || rf.Scenario == nil {
		return nil, fmt.Errorf("no l2 scenario in %s", path)
	}
	return rf.Scenario, nil
}

func replayL2(path string, emit func(any)) int {
	sc, err := loadL2(path)
	if err != nil {
		fmt.Fprintln(os.Stderr, err)
		return 2
	}
	out := runL2(sc)
	emit(FailLine{Kind: "replay", Engine: "l2", Index: sc.Index, Seed: sc.Seed, Outcome: out, Scenario: sc})
	if out.Class != "" && out.Class != "compile" {
		return 1
	}
	return 0
}

func minimizeL2(path string, emit func(any)) int {
	best, err := loadL2(path)
	if err != nil {
		return 2
	}
	first := runL2(best)
	if first.Class == "" || first.Class == "compile" {
		emit(FailLine{Kind: "minimized", Engine: "l2", Index: best.Index, Seed: best.Seed, Outcome: first, Scenario: best})
		return 0
	}
	fails := func(c *L2Scenario) bool { o := runL2(c); return o.Class == first.Class }
	// drop the steps after the first violation, then delta-debug the prefix
	if len(first.Violations) > 0 && first.Violations[0].Step+1 < len(best.Steps) {
		c := *best
		c.Steps = append([]L2Step(nil), best.Steps[:first.Violations[0].Step+1]...)
		if fails(&c) {
			best = &c
		}
	}
	trials := 0
	for chunk := (len(best.Steps) + 1) / 2; chunk >= 1 && trials < 3000; {
		removed := false
		for i := 0; i+chunk <= len(best.Steps) && trials < 3000; {
			c := *best
			c.Steps = append(append([]L2Step(nil), best.Steps[:i]...), best.Steps[i+chunk:]...)
			trials++
			if len(c.Steps) > 0 && fails(&c) {
				best = &c
				removed = true
			} else {
				i += chunk
			}
		}
		if chunk == 1 {
			if !removed {
				break
			}
			continue
		}
		chunk = (chunk + 1) / 2
	}
	// knobs towards defaults
	for _, f := range []func(k *Knobs){func(k *Knobs) { k.NoPrefilter = false }, func(k *Knobs) { k.NoASCII = false }, func(k *Knobs) { k.DetLimit = 0 }, func(k *Knobs) { k.MaxClears = 0 }} {
		c := *best
		f(&c.Knobs)
		if c.Knobs != best.Knobs && fails(&c) {
			best = &c
		}
	}
	final := runL2(best)
	emit(FailLine{Kind: "minimized", Engine: "l2", Index: best.Index, Seed: best.Seed, Outcome: final, Scenario: best})
	return 1
}
