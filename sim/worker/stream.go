package main

import (
	"encoding/json"
	"errors"
	"fmt"
	"io"
	"os"
	"regexp"
	"regexp/syntax"
	"time"
	"unicode/utf8"

	"github.com/coregx/coregex"
)

// SItem is one ReadRune result of the simulated stream.
type SItem struct {
	R   rune   `json:"r"`
	W   int    `json:"w"`
	Err string `json:"err,omitempty"` // "", EOF, UnexpectedEOF, other
}

// SScenario: one pattern, one simulated stream (explicit list of ReadRune results;
// after the list is exhausted the reader returns io.EOF forever unless Resume is
// set, in which case an error item is followed by further runes — a reader that
// "recovers", which a correct consumer never observes because it stops at the
// first error).
type SScenario struct {
	Engine  string  `json:"engine"`
	Prop    string  `json:"prop"`
	Seed    uint64  `json:"seed"`
	Index   int     `json:"index"`
	Pattern string  `json:"pattern"`
	Longest bool    `json:"longest,omitempty"`
	Items   []SItem `json:"items"`
	Honest  bool    `json:"honest"` // every width equals the UTF-8 length of its rune
	Shape   string  `json:"shape"`
	Long    bool    `json:"long,omitempty"` // text crosses a 4/8/16/32/64 K boundary
}

var errOther = errors.New("simulated transport failure")

type simReader struct {
	items []SItem
	pos   int
	calls int
}

func (r *simReader) ReadRune() (rune, int, error) {
	r.calls++
	if r.pos >= len(r.items) {
		return 0, 0, io.EOF
	}
	it := r.items[r.pos]
	r.pos++
	switch it.Err {
	case "":
		return it.R, it.W, nil
	case "EOF":
		return it.R, it.W, io.EOF
	case "UnexpectedEOF":
		return it.R, it.W, io.ErrUnexpectedEOF
	}
	return it.R, it.W, errOther
}

// delivered returns what a correct consumer sees: the runes before the first error.
func (sc *SScenario) delivered() (text string, honest bool) {
	var rs []rune
	honest = true
	for _, it := range sc.Items {
		if it.Err != "" {
			break
		}
		rs = append(rs, it.R)
		n := utf8.RuneLen(it.R)
		if n < 0 {
			n = 3
		}
		if it.W != n {
			honest = false
		}
	}
	return string(rs), honest
}

func genStream(prop string, seed uint64, index int, tier string) *SScenario {
	r := newRng(seed)
	sc := &SScenario{Engine: "stream", Prop: prop, Seed: seed, Index: index}
	pr := r.fork(1)
	sc.Pattern = pickPattern(pr)
	if pr.p(1, 4) {
		sc.Pattern = mutatePattern(pr, sc.Pattern)
	}
	sc.Longest = pr.p(1, 8)
	re := parsePattern(sc.Pattern)
	genASCII = false
	alpha := patternAlphabet(sc.Pattern)
	hr := r.fork(3)
	h := genHaystack(hr, sc.Pattern, re, alpha, pick(hr, []int{0, 1, 1, 2, 2, 3}))
	if lr := r.fork(6); lr.p(1, 14) {
		// long stream: crosses the sizes at which a consumer that reads in chunks or
		// windows (instead of draining the reader) would cut the text, with a member of
		// the language ending exactly at, just before or just after the cut, and text
		// after the cut that decides the answer
		bounds := []int{4096, 4096, 8192, 16384}
		if tier == "thorough" {
			bounds = append(bounds, 32768, 65536)
		}
		h = genLongStream(lr, re, alpha, pick(lr, bounds))
		sc.Long = true
	}
	// decode the way a byte-oriented reader does: invalid bytes are (U+FFFD, 1)
	for i := 0; i < len(h); {
		rn, w := utf8.DecodeRune(h[i:])
		sc.Items = append(sc.Items, SItem{R: rn, W: w})
		i += w
	}
	fr := r.fork(5)
	shape := "clean"
	n := len(sc.Items)
	// dishonest widths (transcoding readers): all runes report width 1, or 2
	widthMode := 0
	if prop != "C11" && fr.p(1, 5) {
		widthMode = fr.between(1, 2)
		for i := range sc.Items {
			sc.Items[i].W = widthMode
		}
		shape = fmt.Sprintf("width%d", widthMode)
	}
	switch fr.n(5) {
	case 0: // clean
	case 1, 2: // error in the middle, nothing after
		if n > 0 {
			k := fr.n(n + 1)
			e := pick(fr, []string{"EOF", "UnexpectedEOF", "other"})
			withRune := fr.p(1, 2)
			it := SItem{Err: e}
			if withRune {
				it.R = pick(fr, []rune{'a', 'b', 'x', '0', 'é', 'o'})
				it.W = utf8.RuneLen(it.R)
				shape += "+err_with_rune@" + pos3(k, n)
			} else {
				shape += "+err@" + pos3(k, n)
			}
			sc.Items = append(append(append([]SItem(nil), sc.Items[:k]...), it), sc.Items[k:]...)
			if !fr.p(1, 2) {
				sc.Items = sc.Items[:k+1] // nothing after the error
			} else {
				shape += "+resumes"
			}
		}
	case 3: // rune delivered together with the final EOF
		sc.Items = append(sc.Items, SItem{R: pick(fr, []rune{'a', 'b', 'x', 'z', '0'}), W: 1, Err: "EOF"})
		shape += "+last_rune_with_eof"
	case 4: // a burst of errors at the very start
		sc.Items = append([]SItem{{Err: "other"}}, sc.Items...)
		shape += "+err@start+resumes"
	}
	if sc.Long {
		shape = "long:" + shape
	}
	sc.Shape = shape
	_, sc.Honest = sc.delivered()
	return sc
}

// genLongStream builds a text of more than b bytes (or runes): pieces of noise and
// members up to the boundary, one member aligned to end at b+delta, then a tail.
func genLongStream(r *rng, re *syntax.Regexp, alpha []string, b int) []byte {
	inRunes := r.p(1, 3)
	measure := func(x []byte) int {
		if inRunes {
			return utf8.RuneCount(x)
		}
		return len(x)
	}
	noiseMax := pick(r, []int{0, 3, 40, 300})
	var out []byte
	for i := 0; i < 40000 && measure(out) < b-160; i++ {
		out = append(out, genNoise(r, alpha, r.n(noiseMax+1))...)
		if r.p(3, 4) {
			m := genMatch(r, re, 0)
			if len(m) == 0 {
				m = genNoise(r, alpha, 1)
			}
			out = append(out, m...)
		}
	}
	m := genMatch(r, re, 0)
	target := b + pick(r, []int{-1, 0, 0, 0, 1, 2}) - measure(m)
	for i := 0; i < 70000 && measure(out) < target; i++ {
		out = append(out, pick(r, alpha)...)
	}
	out = append(out, m...)
	switch r.n(4) {
	case 0: // one more byte decides what an end assertion or a word boundary sees
		out = append(out, pick(r, alpha)...)
	case 1:
	default:
		want := measure(out) + r.between(1, b/2)
		for i := 0; i < 40000 && measure(out) < want; i++ {
			out = append(out, genNoise(r, alpha, r.n(noiseMax+1))...)
			if r.p(3, 4) {
				out = append(out, genMatch(r, re, 0)...)
			} else {
				out = append(out, pick(r, alpha)...)
			}
		}
	}
	return out
}

func pos3(k, n int) string {
	switch {
	case k == 0:
		return "start"
	case k >= n:
		return "end"
	}
	return "middle"
}

type SOutcome struct {
	Class    string `json:"class"` // "" | result
	What     string `json:"what,omitempty"`
	Got      string `json:"got,omitempty"`
	Want     string `json:"want,omitempty"`
	Gated    bool   `json:"gated"` // comparison skipped: string variants of the two libraries already disagree on the delivered text
	Fault    bool   `json:"fault"` // an error item was reached before the end of the source
	Strategy string
	Calls    int
}

// runStream decides the clause of prop on one simulated stream.
func runStream(sc *SScenario) *SOutcome {
	out := &SOutcome{}
	re, err := coregex.Compile(sc.Pattern)
	if err != nil {
		out.Class = "compile"
		return out
	}
	std, err := regexp.Compile(sc.Pattern)
	if err != nil {
		out.Class = "compile"
		return out
	}
	if sc.Longest {
		re.Longest()
		std.Longest()
	}
	out.Strategy = re.VerifEngine().Strategy().String()
	text, honest := sc.delivered()
	for _, it := range sc.Items {
		if it.Err != "" {
			out.Fault = true
		}
	}
	rd := func() *simReader { return &simReader{items: sc.Items} }
	fail := func(what, got, want string) {
		out.Class = "result"
		out.What, out.Got, out.Want = what, got, want
	}
	switch sc.Prop {
	case "C01":
		// gate: both libraries agree on the delivered text through their string variants
		if re.MatchString(text) != std.MatchString(text) {
			out.Gated = true
			return out
		}
		r1 := rd()
		got := re.MatchReader(r1)
		out.Calls = r1.calls
		want := std.MatchReader(rd())
		if got != want {
			fail("MatchReader differs from regexp on the same stream", fmt.Sprint(got), fmt.Sprint(want))
			return out
		}
		g2, err := coregex.MatchReader(sc.Pattern, rd())
		if !sc.Longest && (err != nil || g2 != want) {
			fail("package MatchReader differs from regexp on the same stream", fmt.Sprint(g2, err), fmt.Sprint(want))
		}
	case "C02":
		if fmt.Sprint(re.FindStringIndex(text)) != fmt.Sprint(std.FindStringIndex(text)) {
			out.Gated = true
			return out
		}
		r1 := rd()
		got := fmt.Sprint(re.FindReaderIndex(r1))
		out.Calls = r1.calls
		want := fmt.Sprint(std.FindReaderIndex(rd()))
		if got != want {
			fail("FindReaderIndex differs from regexp on the same stream", got, want)
		}
	case "C03":
		if fmt.Sprint(re.FindStringSubmatchIndex(text)) != fmt.Sprint(std.FindStringSubmatchIndex(text)) {
			out.Gated = true
			return out
		}
		r1 := rd()
		got := fmt.Sprint(re.FindReaderSubmatchIndex(r1))
		out.Calls = r1.calls
		want := fmt.Sprint(std.FindReaderSubmatchIndex(rd()))
		if got != want {
			fail("FindReaderSubmatchIndex differs from regexp on the same stream", got, want)
		}
	case "C11":
		// views of one value: RuneReader variant == string variant on the delivered text
		if !honest {
			out.Gated = true
			return out
		}
		// gate: the string views themselves must report rune-boundary offsets of the
		// delivered text; a mid-rune offset is a defect of the search proper (pure,
		// not this clause) and has no image in stream coordinates.
		for _, loc := range [][]int{re.FindStringIndex(text), re.FindStringSubmatchIndex(text)} {
			for _, off := range loc {
				if off > 0 && off < len(text) && !utf8.RuneStart(text[off]) {
					out.Gated = true
					return out
				}
			}
		}
		if g, w := re.MatchReader(rd()), re.MatchString(text); g != w {
			fail("MatchReader disagrees with MatchString on the delivered text", fmt.Sprint(g), fmt.Sprint(w))
			return out
		}
		if g, w := fmt.Sprint(re.FindReaderIndex(rd())), fmt.Sprint(re.FindStringIndex(text)); g != w {
			fail("FindReaderIndex disagrees with FindStringIndex on the delivered text", g, w)
			return out
		}
		if g, w := fmt.Sprint(re.FindReaderSubmatchIndex(rd())), fmt.Sprint(re.FindStringSubmatchIndex(text)); g != w {
			fail("FindReaderSubmatchIndex disagrees with FindStringSubmatchIndex on the delivered text", g, w)
		}
	}
	return out
}

func streamBatch(prop string, base uint64, from, to int, tier string, budget time.Duration, start time.Time, emit func(any)) {
	sum := &Summary{Kind: "summary", Engine: "stream", From: from, To: to, Failures: map[string]int{}, Policies: map[string]int{}, Strategies: map[string]int{},
		Cells: map[string]int{}, Knobs: map[string]int{}, Probes: map[string]int64{}, Extra: map[string]any{}}
	shapes := map[string]int{}
	gated := 0
	for i := from; i < to; i++ {
		if budget > 0 && time.Since(start) > budget {
			sum.To = i
			break
		}
		seed := runSeed(base, i)
		sc := genStream(prop, seed, i, tier)
		out := runStream(sc)
		if out.Class == "compile" {
			continue
		}
		sum.Runs++
		sum.Strategies[out.Strategy]++
		shapes[sc.Shape]++
		if out.Gated {
			gated++
		}
		if out.Fault {
			sum.Probes["streams_with_injected_error"]++
		}
		if !sc.Honest {
			sum.Probes["streams_with_dishonest_width"]++
		}
		if !out.Gated && (out.Fault || !sc.Honest) {
			h := newHasher()
			h.str(sc.Shape)
			h.str(out.Strategy)
			sum.Nontrivial = append(sum.Nontrivial, uint64(h))
		}
		if len(sum.Samples) < 3 && out.Fault && !out.Gated {
			items := sc.Items
			if len(items) > 16 {
				items = items[:16]
			}
			sum.Samples = append(sum.Samples, map[string]any{"index": i, "seed": seed, "pattern": sc.Pattern, "shape": sc.Shape, "first_items": items, "n_items": len(sc.Items), "readrune_calls": out.Calls})
		}
		if out.Class != "" {
			sum.Failures[out.Class]++
			emit(FailLine{Kind: "failure", Engine: "stream", Index: i, Seed: seed, Outcome: out, Scenario: sc})
		}
	}
	sum.Extra["shapes"] = shapes
	sum.Extra["gated_pure_divergence"] = gated
	sum.WallS = time.Since(start).Seconds()
	emit(sum)
}

func replayStream(path string, emit func(any)) int {
	b, err := os.ReadFile(path)
	if err != nil {
		fmt.Fprintln(os.Stderr, err)
		return 2
	}
	var rf struct {
		Scenario *SScenario `json:"scenario"`
	}
	if err := json.Unmarshal(b, &rf); err != nil || rf.Scenario == nil {
		fmt.Fprintln(os.Stderr, "bad replay file", err)
		return 2
	}
	out := runStream(rf.Scenario)
	emit(FailLine{Kind: "replay", Engine: "stream", Index: rf.Scenario.Index, Seed: rf.Scenario.Seed, Outcome: out, Scenario: rf.Scenario})
	if out.Class != "" {
		return 1
	}
	return 0
}

func minimizeStream(path string, emit func(any)) int {
	b, err := os.ReadFile(path)
	if err != nil {
		return 2
	}
	var rf struct {
		Scenario *SScenario `json:"scenario"`
	}
	if err := json.Unmarshal(b, &rf); err != nil || rf.Scenario == nil {
		return 2
	}
	best := rf.Scenario
	first := runStream(best)
	if first.Class == "" {
		emit(FailLine{Kind: "minimized", Engine: "stream", Index: best.Index, Seed: best.Seed, Outcome: first, Scenario: best})
		return 0
	}
	// delta debugging over the item list: drop chunks (halves, quarters, ... single
	// items) while the same failure persists; the number of trials is bounded so that a
	// 64 K stream still finishes (by count, not by clock: replay stays deterministic)
	trials, work := 0, 0
	for chunk := (len(best.Items) + 1) / 2; chunk >= 1 && trials < 6000 && work < 30000000; {
		removed := false
		for i := 0; i+chunk <= len(best.Items) && trials < 6000 && work < 30000000; {
			c := *best
			c.Items = append(append([]SItem(nil), best.Items[:i]...), best.Items[i+chunk:]...)
			trials++
			work += len(c.Items)
			if o := runStream(&c); o.Class == first.Class && o.What == first.What {
				best = &c
				removed = true
			} else {
				i += chunk
			}
		}
		if chunk == 1 {
			if !removed {
				break
			}
			continue
		}
		chunk = (chunk + 1) / 2
		if chunk < 1 {
			chunk = 1
		}
	}
	final := runStream(best)
	emit(FailLine{Kind: "minimized", Engine: "stream", Index: best.Index, Seed: best.Seed, Outcome: final, Scenario: best})
	return 1
}
