package main

import (
	"fmt"
	"reflect"
	"regexp/syntax"
	"sort"
	"unicode/utf8"
)

// corpus: seed patterns chosen so that every strategy the meta engine can select
// is represented (checked at start-up with Engine.Strategy(); see strategyTable).
var corpus = []string{
	`a`, `abc`, `hello`, `\d+`, `[a-z]+`, `\w+`, `[abc]+`, `[0-9]+`, `(a|b|c)+`, `([0-9])+`, `(\w{2,8})+`,
	`(a|b)+c`, `[^,]*,`, `(\w+)@(\w+)`, `\w+@\w+`, `.*\.txt`, `foo|bar`, `\b\w+\b`, `(foo|bar|baz)+q`, `a[^x]{4}b`,
	`[a-z]+[0-9]`, `[a-z]+[0-9]+`, `[a-zA-Z]+[0-9]+`, `[a-z][0-9]`, `\d+\.\d+\.\d+\.\d+`, `\d{3}-\d{4}`,
	`^abc`, `abc$`, `^abc$`, `^\d+$`, `^(foo|bar|baz)`, `^(GET|POST|PUT|DELETE) `, `^/.*[\w-]+\.php`, `^/.*\.php$`,
	`(?m)^.*error`, `(?m)^.*\.log$`, `(?m)^foo.*bar$`, `.*error`, `.*@example\.com`, `[a-z]+@[a-z]+\.[a-z]+`,
	`foo|bar|baz|qux`, `(foo|bar|baz|qux)\d`, `apple|banana|cherry|date|elder|fig|grape`, `(?i)hello`, `(?i)foo|bar`,
	`\bfoo\b`, `\Bfoo`, `foo\w*bar`, `x*`, `a*`, `(a*)*`, `(?:|a)*`, `a|`, `|a`, `()`, ``, `a?`, `a??`, `a+?b`, `.*?b`, `.+`, `.`, `(?s).`, `(?s).*x`,
	`[^a]+`, `[^\n]*\n`, `\s+`, `\S+`, `\pL+`, `\p{Greek}+`, `[α-ω]+`, `日本`, `日本語|中文`, `é+`, `[é-ü]x`,
	`(a|ab)(c|bcd)(d*)`, `(a+)(b+)`, `(a)(b)(c)`, `^(a)(b)?(c)$`, `^(\w+)\s(\w+)$`, `^(\d+)-(\d+)$`, `(\d+)-(\d+)`, `(?P<y>\d{4})-(?P<m>\d{2})`,
	`x(a|b)*y`, `([ab]*)a[ab]{3}c`, `[ab]*a[ab]{13}c`, `(a|b)*abb`, `a{2,5}`, `(ab){2,3}c`, `a.{3}b`, `a.{0,5}b`,
	`http://\S+`, `https?://[^\s]+`, `\w+\.(com|org|net)`, `[\w.]+@[\w.]+`, `\$\d+\.\d\d`, `#[0-9a-f]{6}`,
	`func \w+\(`, `import "[^"]+"`, `"[^"]*"`, `'[^']*'`, `<[^>]+>`, `</?\w+>`, `\[\d+\]`, `\{[^}]*\}`,
	`ERROR|WARN|FATAL`, `(ERROR|WARN|FATAL): .*`, `\d{4}-\d{2}-\d{2}`, `\d{1,3}(,\d{3})*`, `[+-]?\d+(\.\d+)?`,
	`(?i)select .* from`, `sherlock|holmes|watson|moriarty|irene|adler|john|baker`, `Sherlock Holmes`, `\w+ Holmes`, `Holmes$`,
	`[A-Z][a-z]+ [A-Z][a-z]+`, `(\w+) (\w+)`, `\w+ing\b`, `\b\w+ing`, `\b(\w+)ing\b`, `ing\b`, `[a-z]+ing`, `.*ing`, `[a-q][^u-z]{13}x`,
	`^$`, `^`, `$`, `\A\z`, `(?m)^$`, `(?m)^`, `(?m)$`, `(?m)^\w+$`, `(?m)^\s*#.*$`, `(?m)^(\w+)=(.*)$`,
	`a|b|c|d|e|f|g|h|i|j|k|l|m|n|o|p|q|r|s|t|u|v|w|x|y|z|A|B|C|D|E|F|G|H`,
	`aa|ab|ac|ad|ae|af|ag|ah|ai|aj|ak|al|am|an|ao|ap|aq|ar|as|at|au|av|aw|ax|ay|az|ba|bb|bc|bd|be|bf|bg|bh|bi|bj`,
	`foo1|foo2|foo3|foo4|foo5|foo6|foo7|foo8|foo9|foo10|foo11|foo12|foo13|foo14|foo15|foo16|foo17|foo18|foo19|foo20|foo21|foo22|foo23|foo24|foo25|foo26|foo27|foo28|foo29|foo30|foo31|foo32|foo33|foo34|foo35|foo36|foo37|foo38|foo39|foo40`,
	`[0-9]+[a-z]+`, `\d+[a-z]`, `\d+\s\w+`, `\d+px`, `1\d+`, `[1-9]\d*`, `\d\d:\d\d`, `(\d+)\.(\d+)`, `v\d+\.\d+`, `\d+(abc|def)`,
	`\w+\s+\w+`, `\s\w+\s`, `[a-z]+\s[a-z]+`, `[a-z]{3,}`, `[a-z]{3,5}x`, `x[a-z]*y`, `[xy]+z`, `(x|y)+z`, `(xy)+z`, `(x+y+)+z`,
	`.*foo.*bar`, `foo.*bar`, `foo.+bar`, `foo.*`, `.*foo`, `.+foo`, `[^f]*foo`, `\w*foo`, `\w+foo\w+`, `.*(foo|bar)`, `.*[fb]oo`, `.*\d`,
	`\w+\.txt`, `\w+\.(txt|log|md)`, `.*\.(txt|log|md)`, `.*\.(txt|log|md)$`, `[^/]+\.go$`, `^.*\.go$`, `\.go$`, `^src/.*\.go$`,
	`(?i)[a-z]+\d`, `(?i)error.*`, `(?i).*error`, `(?i)\berror\b`, `(?i)abc|abd`, `(?is)a.*b`, `(?U)a+`, `(?U)a+?`, `(?U)(a|ab)`,
	`\x00+`, `[\x00-\x1f]+`, `[\x80-\xff]+`, `\xff`, `[^\x00-\x7f]`,
	`(a|ab)`, `(a|ab)+c`, `(cat|catalog)s?`, `\w+?|\w+\d`, `(a*)(a|aa)`, `(foo|foobar)(bar)?`, `x(a|ab|abc)*y?`,
	// anchored patterns with optional / alternative capture groups (one-pass DFA capture path)
	`^(x)?(y)?z$`, `^([a-z]+)(?:=(\d+))?;`, `^(\d+)(?:\.(\d+))?$`, `^(GET|POST) (/\S*)(?: (HTTP/\d))?$`, `^(?:(a)|(b))c`, `^(\w+)(?:-(\w+))?(?:\.(\w+))?$`,
	`^([+-])?(\d+)$`, `^(foo)(bar)?(baz)?`, `^(\w)(\w)?(\w)?$`,
	// more representatives of the strategies the first corpus covered thinly
	`(?m)^.*warning`, `(?m)^.*failed:`, `(?m)^.*\.php`, `(?m)^.+TODO`,
	`\w+=\w+`, `[a-z]+://[a-z]+`, `\w+\s*=\s*\w+`, `\w+::\w+`, `[A-Za-z]+, [A-Za-z]+`,
	`^(if|for|while)\b`, `^(https?|ftp)://`, `^(yes|no|maybe)$`, `^(\d+|[a-f]+)x`, `^(alpha|beta|gamma|delta)-`,
	`^/api/.*\.json$`, `^GET .* HTTP$`, `^begin.*end$`, `^<.*>$`, `^\[.*\]$`,
	// word boundaries on the lazy-DFA strategies (most \b patterns are routed to the NFA)
	`\berror\b.*`, `x\b.y`, `a.{0,5}b\b`, `[^,]*,\b`, `\d+\b`, `[ab]*a[ab]{15}\b`, `(?i)\bwarn\w*:.*`, `.*\bfoo\b`, `\d{2}:\d{2}\b`,
	// start-anchored patterns with '.': UseBoundedBacktracker plus the ASCII automaton and the
	// engine-level ASCII backtracker (the *stateless* BoundedBacktracker entry points)
	`^/.*\.html`, `^\w+: .*\d`, `^GET /.* HTTP/1\.[01]`, `^(.*)=(\d+)`, `^.+@.+\..+`, `^\[(.*)\] (\w+)`, `^.{3,10}x`, `^(\w+)=(.*)$`, `^.*x.*y`, `^(?:.*,){2}`, `(\w+)=(.*)`,
	// multiline reverse-suffix with a prefix literal to verify; (?m)^ with a complete literal
	// set (line-anchor wrapper around the prefilter)
	`(?m)^/.*\.php`, `(?m)^ERROR.*\.log`, `(?m)^foo`, `(?m)^(?:foo|bar|baz)`, `(?m)^ERROR`, `(?m)^(?:GET|POST|HEAD)`,
	// >= 16 byte classes with a state that loops on all but one to three of them (lazy-DFA
	// state acceleration: memchr / memchr2 / memchr3 to the next exit byte)
	`x[^y]*y(?:a1|b2|c3|d4|e5|f6|g7|h8|i9)`, `<[^>]*>(?:a1|b2|c3|d4|e5|f6|g7|h8)`, `q[^rs]*[rs](?:a1|b2|c3|d4|e5|f6|g7|h8)`, `k[^lmn]*[lmn](?:a1|b2|c3|d4|e5|f6|g7|h8)`,
	// state blow-up (many reachable DFA states on inputs over the pattern's own alphabet)
	`a[ab]{12}[cd]`, `[cd][ab]{10}a[ab]*x`, `ab[ab]{20}c`, `(a|b)*a(a|b){9}`, `[01]*1[01]{11}`,
}

// longAlternation builds an alternation of n distinct words of length l with no
// common prefix (65..150 words select the Aho-Corasick strategy, 33..64 Teddy,
// 300 the NFA).
func longAlternation(n, l int) string {
	b := make([]byte, 0, n*(l+1))
	for i := 0; i < n; i++ {
		if i > 0 {
			b = append(b, '|')
		}
		x := i*7919 + 13
		for j := 0; j < l; j++ {
			b = append(b, byte('a'+x%26))
			x = x/26 + i*31 + j*17
		}
	}
	return string(b)
}

func init() {
	corpus = append(corpus, longAlternation(70, 5), longAlternation(120, 3), longAlternation(40, 4), "("+longAlternation(66, 4)+")x", longAlternation(300, 4))
	// more of the SIMD multi-literal prefilters (Fat Teddy 33..64 literals, slim Teddy
	// below), bare and with a tail that the prefilter's candidates must be verified against
	corpus = append(corpus, longAlternation(34, 3), longAlternation(56, 5), "(?:"+longAlternation(48, 4)+`)\d+`, `\b(?:`+longAlternation(36, 6)+`)\b`,
		longAlternation(8, 4), longAlternation(20, 3), "(?:"+longAlternation(12, 5)+")[xyz]")
}

// mutatePattern returns a syntactic neighbour of p (or p itself), so that
// patterns falling through to another dispatcher are reached as well.
func mutatePattern(r *rng, p string) string {
	var q string
	switch r.n(12) {
	case 0:
		q = "(" + p + ")"
	case 1:
		q = "(?:" + p + ")+"
	case 2:
		q = "(?i)" + p
	case 3:
		q = "^(?:" + p + ")"
	case 4:
		q = "(?:" + p + ")$"
	case 5:
		q = "(?m)^(?:" + p + ")$"
	case 6:
		q = `\b(?:` + p + ")"
	case 7:
		q = "(?:" + p + ")|zzz"
	case 8:
		q = "x?(?:" + p + ")"
	case 9:
		q = "(?:" + p + ")??"
	case 10:
		q = "(" + p + ")(y)?"
	case 11:
		q = ".*(?:" + p + ")"
	}
	if _, err := syntax.Parse(q, syntax.Perl); err != nil {
		return p
	}
	return q
}

// --- haystack generation ---------------------------------------------------

// genMatch produces a string of the pattern's language (best effort: look-around
// is ignored, so the result may or may not match; that is fine, it is a haystack
// generator, not an oracle).
func genMatch(r *rng, re *syntax.Regexp, depth int) []byte {
	var out []byte
	switch re.Op {
	case syntax.OpLiteral:
		for _, c := range re.Rune {
			if re.Flags&syntax.FoldCase != 0 && r.p(1, 2) {
				if c >= 'a' && c <= 'z' {
					c -= 32
				} else if c >= 'A' && c <= 'Z' {
					c += 32
				}
			}
			out = utf8.AppendRune(out, c)
		}
	case syntax.OpCharClass:
		if len(re.Rune) >= 2 {
			i := r.n(len(re.Rune)/2) * 2
			lo, hi := re.Rune[i], re.Rune[i+1]
			if hi-lo > 64 {
				hi = lo + 64
			}
			c := lo + rune(r.n(int(hi-lo)+1))
			if genASCII && c >= 0x80 && re.Rune[0] < 0x80 {
				// the class has ASCII members: take one of the first range
				c = re.Rune[0]
			}
			out = utf8.AppendRune(out, c)
		}
	case syntax.OpAnyCharNotNL, syntax.OpAnyChar:
		if genASCII {
			out = append(out, pick(r, asciiNoise)...)
		} else {
			out = append(out, pick(r, noiseRunes)...)
		}
	case syntax.OpCapture:
		out = genMatch(r, re.Sub[0], depth+1)
	case syntax.OpStar, syntax.OpPlus, syntax.OpQuest, syntax.OpRepeat:
		lo, hi := 0, 3
		switch re.Op {
		case syntax.OpPlus:
			lo = 1
		case syntax.OpQuest:
			hi = 1
		case syntax.OpRepeat:
			lo, hi = re.Min, re.Max
			if hi < 0 {
				hi = lo + 3
			}
		}
		if r.p(1, 8) && re.Op != syntax.OpQuest && re.Op != syntax.OpRepeat {
			hi += 20
		}
		k := r.between(lo, hi)
		for i := 0; i < k && len(out) < 4096; i++ {
			out = append(out, genMatch(r, re.Sub[0], depth+1)...)
		}
	case syntax.OpConcat:
		for _, s := range re.Sub {
			out = append(out, genMatch(r, s, depth+1)...)
		}
	case syntax.OpAlternate:
		out = genMatch(r, re.Sub[r.n(len(re.Sub))], depth+1)
	}
	return out
}

var noiseRunes = []string{"a", "b", "x", "z", "q", "0", "7", " ", " ", ".", ",", "-", "_", "@", "/", "\n", "é", "日", "ω", "\xff", "E", "f", "o"}

// genASCII restricts generated haystacks to 7-bit bytes for the scenario being
// generated (set by the scenario generators from the scenario's own PRNG stream, a
// third of the scenarios): the library's ASCII-only fast paths (ASCII automata,
// ASCII backtracker, byte-class searchers) run only when the whole haystack is ASCII,
// and a mixed alphabet makes such a haystack exponentially unlikely as it grows.
var genASCII bool

var asciiNoise = []string{"a", "b", "x", "z", "q", "0", "7", " ", " ", ".", ",", "-", "_", "@", "/", "\n", "E", "f", "o"}

func asciiOnlyAlphabet(alpha []string) []string {
	var out []string
	for _, a := range alpha {
		ok := true
		for i := 0; i < len(a); i++ {
			if a[i] >= 0x80 {
				ok = false
			}
		}
		if ok {
			out = append(out, a)
		}
	}
	if len(out) == 0 {
		return asciiNoise
	}
	return out
}

// patternAlphabet collects bytes that are interesting for this pattern.
func patternAlphabet(p string) []string {
	a := patternAlphabetAll(p)
	if genASCII {
		return asciiOnlyAlphabet(a)
	}
	return a
}

func patternAlphabetAll(p string) []string {
	a := append([]string(nil), noiseRunes...)
	for _, c := range p {
		if c < 128 && (c >= '0' && c <= '9' || c >= 'a' && c <= 'z' || c >= 'A' && c <= 'Z' || c == '@' || c == ' ' || c == '/' || c == '-' || c == ':' || c == ',' || c == '"' || c == '=') {
			a = append(a, string(c))
		} else if c >= 128 {
			a = append(a, string(c))
		}
	}
	return a
}

// patternOnlyAlphabet keeps the symbols that come from the pattern itself: noise
// made of them keeps automata busy (state blow-up, cache pressure) instead of
// resetting them at every other byte.
func patternOnlyAlphabet(alpha []string) []string {
	n := len(noiseRunes)
	if genASCII {
		n = len(asciiNoise)
	}
	if len(alpha) <= n {
		return alpha
	}
	return alpha[n:]
}

func genNoise(r *rng, alpha []string, n int) []byte {
	var out []byte
	if n > 0 && r.p(1, 3) {
		// a run of one symbol (reaches run-skipping and acceleration paths)
		s := pick(r, alpha)
		for len(out) < n {
			out = append(out, s...)
		}
		return out
	}
	for len(out) < n {
		out = append(out, pick(r, alpha)...)
	}
	return out
}

// genFlood builds a near-miss flood: a long run of almost-members (a prefilter's
// candidates that verification rejects, one after the other) with a real member late
// or never; the paths that give up on a prefilter, batch its candidates or fall back
// to another engine only run on this shape.
func genFlood(r *rng, re *syntax.Regexp, alpha []string, class int) []byte {
	n := r.between(20, 60)
	if class >= 3 {
		n = r.between(40, 150)
	}
	at := -1
	if r.p(2, 3) {
		at = n - 1 - r.n(n/3+1)
	}
	var out []byte
	for i := 0; i < n; i++ {
		m := genMatch(r, re, 0)
		if i != at && len(m) > 0 {
			switch r.n(3) {
			case 0:
				m = m[:len(m)-1]
			case 1:
				m[len(m)-1] ^= 0x21
			case 2:
				m[r.n(len(m))] = pick(r, alpha)[0]
			}
		}
		out = append(out, m...)
		out = append(out, genNoise(r, alpha, r.n(3))...)
		if len(out) > 6000 {
			break
		}
	}
	return out
}

// genHaystack builds one haystack for pattern p. size class: 0 tiny, 1 short,
// 2 medium, 3 long (>= 1 KB), 4 very long.
func genHaystack(r *rng, p string, re *syntax.Regexp, alpha []string, class int) []byte {
	var maxNoise, pieces int
	switch class {
	case 0:
		if r.p(1, 4) {
			return nil
		}
		maxNoise, pieces = 3, 1
	case 1:
		maxNoise, pieces = 12, r.between(1, 2)
	case 2:
		maxNoise, pieces = 60, r.between(1, 6)
	case 3:
		maxNoise, pieces = 600, r.between(1, 8)
	default:
		maxNoise, pieces = 3000, r.between(1, 6)
	}
	// a quarter of the haystacks are a bare member of the language, or one with a
	// single byte changed: anchored machinery (one-pass DFA, anchored literals,
	// branch dispatch, reverse-anchored search) only runs far on such inputs
	if class <= 2 && r.p(1, 4) {
		m := genMatch(r, re, 0)
		if r.p(1, 2) && len(m) > 0 {
			k := len(m) - 1
			if r.p(1, 2) {
				k = r.n(len(m))
			}
			switch r.n(3) {
			case 0:
				m[k] ^= 0x20
			case 1:
				m[k] = pick(r, alpha)[0]
			case 2:
				m = append(m[:k], m[k+1:]...)
			}
		}
		return m
	}
	if class >= 2 && r.p(1, 8) {
		return genFlood(r, re, alpha, class)
	}
	if r.p(1, 3) {
		alpha = patternOnlyAlphabet(alpha)
	}
	if class <= 2 && r.p(1, 8) {
		// noise only: calls that must answer "no match" are where a spurious match shows
		return genNoise(r, alpha, r.n(maxNoise*2+1))
	}
	var out []byte
	for i := 0; i < pieces; i++ {
		out = append(out, genNoise(r, alpha, r.n(maxNoise+1))...)
		if r.p(5, 6) {
			m := genMatch(r, re, 0)
			switch r.n(8) {
			case 0: // near miss: drop last byte
				if len(m) > 0 {
					m = m[:len(m)-1]
				}
			case 1: // near miss: flip one byte
				if len(m) > 0 {
					m[r.n(len(m))] ^= 0x20
				}
			}
			out = append(out, m...)
		}
	}
	out = append(out, genNoise(r, alpha, r.n(maxNoise+1))...)
	return out
}

// ---- pattern choice balanced over engine configurations -----------------------

// engineSignature describes which machinery Compile built for a pattern: the
// strategy plus the set of non-nil reference fields of meta.Engine (DFAs, searchers,
// prefilter, one-pass automaton, ASCII variants ...), read by reflection so that a
// field added by a change is part of the signature without anyone listing it here.
func engineSignature(p string) string {
	re, err := compile(p, Knobs{})
	if err != nil {
		return "ERROR"
	}
	eng := re.VerifEngine()
	v := reflect.ValueOf(eng).Elem()
	t := v.Type()
	sig := eng.Strategy().String()
	for i := 0; i < v.NumField(); i++ {
		f := v.Field(i)
		switch f.Kind() {
		case reflect.Ptr, reflect.Interface, reflect.Map, reflect.Slice, reflect.Func:
			if !f.IsNil() {
				sig += "+" + t.Field(i).Name
			}
		}
	}
	if pf := eng.VerifPrefilter(); pf != nil {
		sig += fmt.Sprintf("+pf:%T", pf)
	}
	return sig
}

var corpusGroups [][]string

// pickPattern draws a corpus pattern: half of the time uniformly, half of the time
// by first drawing an engine configuration (signature) uniformly and then a pattern
// that compiles to it - so machinery that only a handful of the ~350 patterns get
// (an ASCII backtracker, a Fat Teddy prefilter, a reverse-inner searcher with a
// one-pass automaton ...) is exercised as often as the common configurations.
func pickPattern(r *rng) string {
	if corpusGroups == nil {
		m := map[string][]string{}
		for _, p := range corpus {
			s := engineSignature(p)
			m[s] = append(m[s], p)
		}
		keys := make([]string, 0, len(m))
		for k := range m {
			keys = append(keys, k)
		}
		sort.Strings(keys)
		for _, k := range keys {
			corpusGroups = append(corpusGroups, m[k])
		}
	}
	if r.p(1, 2) {
		return pick(r, corpus)
	}
	return pick(r, pick(r, corpusGroups))
}
