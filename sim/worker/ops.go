package main

import (
	"fmt"
	"strings"
	"unsafe"

	"github.com/coregx/coregex"
	"github.com/coregx/coregex/meta"
)

// Op is one call on a Regex. H indexes the scenario's haystack table; N is the
// limit n (FindAll family, Count, Split), the start offset (engine *At calls) or
// the number of matches after which an iterator is abandoned; Arg is a
// replacement template.
type Op struct {
	API string `json:"api"`
	H   int    `json:"h"`
	N   int    `json:"n,omitempty"`
	Arg string `json:"arg,omitempty"`
}

type apiFn func(re *coregex.Regex, b []byte, s string, op *Op) string

type apiInfo struct {
	name   string
	fn     apiFn
	needsN int // 0 none, 1 limit (-1,1,2,..), 2 offset, 3 break-after
	repl   bool
	weight int
	subm   bool // capture API
}

// loc renders a sub-slice result as offset:len relative to the haystack it must
// alias; a slice that does not point into the haystack is rendered with its
// content and flagged, so a copying implementation is a visible difference.
func loc(b, sub []byte) string {
	if sub == nil {
		return "nil"
	}
	if len(sub) == 0 {
		return "empty"
	}
	if len(b) > 0 {
		d := uintptr(unsafe.Pointer(&sub[0])) - uintptr(unsafe.Pointer(&b[0]))
		if d < uintptr(len(b)) && int(d)+len(sub) <= len(b) {
			return fmt.Sprintf("%d:%d", int(d), len(sub))
		}
	}
	return fmt.Sprintf("ALIEN%q", sub)
}

func locs(b []byte, subs [][]byte) string {
	if subs == nil {
		return "nil"
	}
	var sb strings.Builder
	sb.WriteByte('[')
	for i, s := range subs {
		if i > 0 {
			sb.WriteByte(' ')
		}
		sb.WriteString(loc(b, s))
	}
	sb.WriteByte(']')
	return sb.String()
}

func sloc(s, sub string) string {
	return fmt.Sprintf("%q", sub)
}

func limitOf(op *Op) int {
	return op.N
}

func renderMatch(m *meta.Match) string {
	if m == nil {
		return "nil"
	}
	return fmt.Sprintf("%d-%d", m.Start(), m.End())
}

func renderMWC(b []byte, m *meta.MatchWithCaptures) string {
	if m == nil {
		return "nil"
	}
	var sb strings.Builder
	fmt.Fprintf(&sb, "%d-%d/%d", m.Start(), m.End(), m.NumCaptures())
	for i := 0; i < m.NumCaptures(); i++ {
		fmt.Fprintf(&sb, " %v", m.GroupIndex(i))
	}
	sb.WriteString(" " + locs(b, m.AllGroups()))
	return sb.String()
}

var apis = []apiInfo{
	{"Match", func(re *coregex.Regex, b []byte, s string, op *Op) string { return fmt.Sprint(re.Match(b)) }, 0, false, 6, false},
	{"MatchString", func(re *coregex.Regex, b []byte, s string, op *Op) string { return fmt.Sprint(re.MatchString(s)) }, 0, false, 4, false},
	{"Find", func(re *coregex.Regex, b []byte, s string, op *Op) string { return loc(b, re.Find(b)) }, 0, false, 4, false},
	{"FindString", func(re *coregex.Regex, b []byte, s string, op *Op) string { return sloc(s, re.FindString(s)) }, 0, false, 2, false},
	{"FindIndex", func(re *coregex.Regex, b []byte, s string, op *Op) string { return fmt.Sprint(re.FindIndex(b)) }, 0, false, 6, false},
	{"FindStringIndex", func(re *coregex.Regex, b []byte, s string, op *Op) string {
		return fmt.Sprint(re.FindStringIndex(s))
	}, 0, false, 4, false},
	{"FindSubmatch", func(re *coregex.Regex, b []byte, s string, op *Op) string { return locs(b, re.FindSubmatch(b)) }, 0, false, 3, true},
	{"FindStringSubmatch", func(re *coregex.Regex, b []byte, s string, op *Op) string {
		return fmt.Sprintf("%q", re.FindStringSubmatch(s))
	}, 0, false, 2, true},
	{"FindSubmatchIndex", func(re *coregex.Regex, b []byte, s string, op *Op) string {
		return fmt.Sprint(re.FindSubmatchIndex(b))
	}, 0, false, 5, true},
	{"FindStringSubmatchIndex", func(re *coregex.Regex, b []byte, s string, op *Op) string {
		return fmt.Sprint(re.FindStringSubmatchIndex(s))
	}, 0, false, 3, true},
	{"FindAll", func(re *coregex.Regex, b []byte, s string, op *Op) string { return locs(b, re.FindAll(b, op.N)) }, 1, false, 3, false},
	{"FindAllString", func(re *coregex.Regex, b []byte, s string, op *Op) string {
		return fmt.Sprintf("%q", re.FindAllString(s, op.N))
	}, 1, false, 2, false},
	{"FindAllIndex", func(re *coregex.Regex, b []byte, s string, op *Op) string {
		return fmt.Sprint(re.FindAllIndex(b, op.N))
	}, 1, false, 5, false},
	{"FindAllStringIndex", func(re *coregex.Regex, b []byte, s string, op *Op) string {
		return fmt.Sprint(re.FindAllStringIndex(s, op.N))
	}, 1, false, 3, false},
	{"FindAllSubmatch", func(re *coregex.Regex, b []byte, s string, op *Op) string {
		r := re.FindAllSubmatch(b, op.N)
		if r == nil {
			return "nil"
		}
		var sb strings.Builder
		for _, m := range r {
			sb.WriteString(locs(b, m))
		}
		return sb.String()
	}, 1, false, 2, true},
	{"FindAllStringSubmatch", func(re *coregex.Regex, b []byte, s string, op *Op) string {
		return fmt.Sprintf("%q", re.FindAllStringSubmatch(s, op.N))
	}, 1, false, 2, true},
	{"FindAllSubmatchIndex", func(re *coregex.Regex, b []byte, s string, op *Op) string {
		return fmt.Sprint(re.FindAllSubmatchIndex(b, op.N))
	}, 1, false, 4, true},
	{"FindAllStringSubmatchIndex", func(re *coregex.Regex, b []byte, s string, op *Op) string {
		return fmt.Sprint(re.FindAllStringSubmatchIndex(s, op.N))
	}, 1, false, 2, true},
	{"Count", func(re *coregex.Regex, b []byte, s string, op *Op) string { return fmt.Sprint(re.Count(b, op.N)) }, 1, false, 5, false},
	{"CountString", func(re *coregex.Regex, b []byte, s string, op *Op) string { return fmt.Sprint(re.CountString(s, op.N)) }, 1, false, 2, false},
	{"AllIndex", func(re *coregex.Regex, b []byte, s string, op *Op) string {
		var sb strings.Builder
		k := 0
		for m := range re.AllIndex(b) {
			fmt.Fprintf(&sb, "%v", m)
			k++
			if op.N > 0 && k >= op.N {
				break
			}
		}
		return sb.String()
	}, 3, false, 4, false},
	{"AllIndexNested", func(re *coregex.Regex, b []byte, s string, op *Op) string {
		// the loop body calls back into the same value while the iterator is suspended
		// (two per-search states checked out at once without any goroutine)
		var sb strings.Builder
		k := 0
		for m := range re.AllIndex(b) {
			fmt.Fprintf(&sb, "%v%v", m, re.Match(b[m[0]:m[1]]))
			k++
			if op.N > 0 && k >= op.N {
				break
			}
		}
		return sb.String()
	}, 3, false, 2, false},
	{"AllStringIndex", func(re *coregex.Regex, b []byte, s string, op *Op) string {
		var sb strings.Builder
		k := 0
		for m := range re.AllStringIndex(s) {
			fmt.Fprintf(&sb, "%v", m)
			k++
			if op.N > 0 && k >= op.N {
				break
			}
		}
		return sb.String()
	}, 3, false, 2, false},
	{"All", func(re *coregex.Regex, b []byte, s string, op *Op) string {
		var sb strings.Builder
		k := 0
		for m := range re.All(b) {
			sb.WriteString(loc(b, m) + " ")
			k++
			if op.N > 0 && k >= op.N {
				break
			}
		}
		return sb.String()
	}, 3, false, 2, false},
	{"AllString", func(re *coregex.Regex, b []byte, s string, op *Op) string {
		var sb strings.Builder
		k := 0
		for m := range re.AllString(s) {
			fmt.Fprintf(&sb, "%q ", m)
			k++
			if op.N > 0 && k >= op.N {
				break
			}
		}
		return sb.String()
	}, 3, false, 2, false},
	{"AppendAllIndex", func(re *coregex.Regex, b []byte, s string, op *Op) string {
		dst := make([][2]int, 1, 64)
		dst[0] = [2]int{-7, -7}
		return fmt.Sprint(re.AppendAllIndex(dst, b, op.N))
	}, 1, false, 4, false},
	{"AppendAllStringIndex", func(re *coregex.Regex, b []byte, s string, op *Op) string {
		var dst [][2]int
		return fmt.Sprint(re.AppendAllStringIndex(dst, s, op.N))
	}, 1, false, 2, false},
	{"ReplaceAll", func(re *coregex.Regex, b []byte, s string, op *Op) string {
		return fmt.Sprintf("%q", re.ReplaceAll(b, []byte(op.Arg)))
	}, 0, true, 3, false},
	{"ReplaceAllString", func(re *coregex.Regex, b []byte, s string, op *Op) string {
		return fmt.Sprintf("%q", re.ReplaceAllString(s, op.Arg))
	}, 0, true, 3, false},
	{"ReplaceAllLiteral", func(re *coregex.Regex, b []byte, s string, op *Op) string {
		return fmt.Sprintf("%q", re.ReplaceAllLiteral(b, []byte(op.Arg)))
	}, 0, true, 2, false},
	{"ReplaceAllLiteralString", func(re *coregex.Regex, b []byte, s string, op *Op) string {
		return fmt.Sprintf("%q", re.ReplaceAllLiteralString(s, op.Arg))
	}, 0, true, 1, false},
	{"ReplaceAllFunc", func(re *coregex.Regex, b []byte, s string, op *Op) string {
		// the callback re-enters the same Regex (nested use while a search state is held)
		return fmt.Sprintf("%q", re.ReplaceAllFunc(b, func(m []byte) []byte {
			if re.Match(m) {
				return append([]byte("<"), append(append([]byte(nil), m...), '>')...)
			}
			return []byte("!")
		}))
	}, 0, false, 3, false},
	{"ReplaceAllStringFunc", func(re *coregex.Regex, b []byte, s string, op *Op) string {
		return fmt.Sprintf("%q", re.ReplaceAllStringFunc(s, func(m string) string {
			return fmt.Sprint(re.FindStringIndex(m))
		}))
	}, 0, false, 2, false},
	{"Split", func(re *coregex.Regex, b []byte, s string, op *Op) string {
		return fmt.Sprintf("%q", re.Split(s, op.N))
	}, 1, false, 2, false},
	{"MatchReader", func(re *coregex.Regex, b []byte, s string, op *Op) string {
		return fmt.Sprint(re.MatchReader(strings.NewReader(s)))
	}, 0, false, 1, false},
	{"FindReaderIndex", func(re *coregex.Regex, b []byte, s string, op *Op) string {
		return fmt.Sprint(re.FindReaderIndex(strings.NewReader(s)))
	}, 0, false, 1, false},
	{"FindReaderSubmatchIndex", func(re *coregex.Regex, b []byte, s string, op *Op) string {
		return fmt.Sprint(re.FindReaderSubmatchIndex(strings.NewReader(s)))
	}, 0, false, 1, true},
	// accessors and template expansion: read-only views of the compiled value that callers
	// use next to (and concurrently with) searches
	{"Metadata", func(re *coregex.Regex, b []byte, s string, op *Op) string {
		lp, full := re.LiteralPrefix()
		mt, err := re.MarshalText()
		names := re.SubexpNames()
		idx := -2
		if len(names) > 1 {
			idx = re.SubexpIndex(names[len(names)-1])
		}
		return fmt.Sprintf("%d %q %d %q %q %v %q %v", re.NumSubexp(), names, idx, re.String(), lp, full, mt, err)
	}, 0, false, 2, false},
	{"Expand", func(re *coregex.Regex, b []byte, s string, op *Op) string {
		m := re.FindSubmatchIndex(b)
		dst := re.Expand([]byte("^"), []byte(op.Arg+"|${1}|$name|$0"), b, m)
		ms := re.FindStringSubmatchIndex(s)
		return fmt.Sprintf("%q %q", dst, re.ExpandString(nil, op.Arg, s, ms))
	}, 0, true, 2, true},
	// (package-level one-shot helpers - coregex.Match(pattern, b) - are deliberately not in the
	// table: they compile inside the call, compilation ranges over Go maps, and under the
	// simulated scheduler the number of executed yield points then differs from process to
	// process - the determinism self-test caught it: DIVERGENCE at GOMAXPROCS 16)
	// lower-level engine API
	{"Engine.IsMatch", func(re *coregex.Regex, b []byte, s string, op *Op) string {
		return fmt.Sprint(re.VerifEngine().IsMatch(b))
	}, 0, false, 2, false},
	{"Engine.Find", func(re *coregex.Regex, b []byte, s string, op *Op) string {
		return renderMatch(re.VerifEngine().Find(b))
	}, 0, false, 3, false},
	{"Engine.FindAt", func(re *coregex.Regex, b []byte, s string, op *Op) string {
		return renderMatch(re.VerifEngine().FindAt(b, clampAt(op.N, len(b))))
	}, 2, false, 3, false},
	{"Engine.FindIndices", func(re *coregex.Regex, b []byte, s string, op *Op) string {
		st, en, ok := re.VerifEngine().FindIndices(b)
		return fmt.Sprint(st, en, ok)
	}, 0, false, 3, false},
	{"Engine.FindIndicesAt", func(re *coregex.Regex, b []byte, s string, op *Op) string {
		st, en, ok := re.VerifEngine().FindIndicesAt(b, clampAt(op.N, len(b)))
		return fmt.Sprint(st, en, ok)
	}, 2, false, 3, false},
	{"Engine.FindSubmatch", func(re *coregex.Regex, b []byte, s string, op *Op) string {
		return renderMWC(b, re.VerifEngine().FindSubmatch(b))
	}, 0, false, 2, true},
	{"Engine.FindSubmatchAt", func(re *coregex.Regex, b []byte, s string, op *Op) string {
		return renderMWC(b, re.VerifEngine().FindSubmatchAt(b, clampAt(op.N, len(b))))
	}, 2, false, 2, true},
	{"Engine.Count", func(re *coregex.Regex, b []byte, s string, op *Op) string {
		return fmt.Sprint(re.VerifEngine().Count(b, op.N))
	}, 1, false, 2, false},
	{"Engine.FindAllIndicesStreaming", func(re *coregex.Regex, b []byte, s string, op *Op) string {
		n := op.N
		if n < 0 {
			n = 0
		}
		return fmt.Sprint(re.VerifEngine().FindAllIndicesStreaming(b, n, nil))
	}, 1, false, 2, false},
	{"Engine.FindAllSubmatch", func(re *coregex.Regex, b []byte, s string, op *Op) string {
		r := re.VerifEngine().FindAllSubmatch(b, op.N)
		var sb strings.Builder
		for _, m := range r {
			sb.WriteString(renderMWC(b, m) + ";")
		}
		return sb.String()
	}, 1, false, 1, true},
}

func clampAt(at, n int) int {
	if at < 0 {
		return 0
	}
	if at > n {
		return n
	}
	return at
}

var apiByName = map[string]*apiInfo{}
var apiWeightSum int

func init() {
	for i := range apis {
		apiByName[apis[i].name] = &apis[i]
		apiWeightSum += apis[i].weight
	}
}

var replTemplates = []string{"", "X", "$0", "[$1]", "${1}x$2", "$$", "$9", "<$0$0>"}

// genOp draws one operation on haystack index h of length hlen.
func genOp(r *rng, h, hlen int) Op {
	k := r.n(apiWeightSum)
	var a *apiInfo
	for i := range apis {
		if k < apis[i].weight {
			a = &apis[i]
			break
		}
		k -= apis[i].weight
	}
	op := Op{API: a.name, H: h}
	switch a.needsN {
	case 1:
		op.N = pick(r, []int{-1, -1, -1, 1, 2, 3, 5, 0})
	case 2:
		if hlen > 0 && r.p(2, 3) {
			op.N = r.n(hlen + 1)
		}
	case 3:
		op.N = pick(r, []int{0, 0, 1, 2, 4})
	}
	if a.repl {
		op.Arg = pick(r, replTemplates)
	}
	return op
}

// execOp runs op on re and renders the result; a panic is part of the result.
func execOp(re *coregex.Regex, op *Op, hb [][]byte, hs []string) (res string) {
	defer func() {
		if p := recover(); p != nil {
			res = fmt.Sprintf("PANIC: %v", p)
		}
	}()
	a := apiByName[op.API]
	if a == nil {
		return "unknown api " + op.API
	}
	return a.fn(re, hb[op.H], hs[op.H], op)
}
