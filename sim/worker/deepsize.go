package main

import (
	"reflect"
	"unsafe"
)

// deepFootprint walks everything reachable from the given roots by reflection
// (exported or not) and sums the capacities of slices, the sizes of maps, strings
// and pointed-to objects. It is the "whatever the change added, wherever it lives"
// companion of the hook-based footprint: a per-search append to any slice on the
// Engine, a searcher, a pooled object or a borrowed helper shows up here.
// Functions, channels and bare unsafe.Pointer fields are not followed; atomic.Pointer[T] is.
type deepSizer struct {
	seen   map[unsafe.Pointer]bool
	total  int
	states int // objects of type meta.SearchState reached
	byType map[string]int
	// exclBounded leaves out the structures that have their own configured bound and
	// their own invariant (lazy-DFA caches: I1, visited tables: I2)
	exclBounded bool
}

func (d *deepSizer) add(t reflect.Type, n int) {
	d.total += n
	if d.byType != nil {
		d.byType[t.String()] += n
	}
}

// deepBreakdown is deepFootprint with the bytes attributed to the Go type that holds them.
func deepBreakdown(exclBounded bool, roots ...any) (int, map[string]int) {
	d := &deepSizer{seen: map[unsafe.Pointer]bool{}, byType: map[string]int{}, exclBounded: exclBounded}
	for _, r := range roots {
		if r != nil {
			d.walk(reflect.ValueOf(r), 0)
		}
	}
	return d.total, d.byType
}

func deepFootprint(roots ...any) int {
	d := &deepSizer{seen: map[unsafe.Pointer]bool{}}
	for _, r := range roots {
		if r != nil {
			d.walk(reflect.ValueOf(r), 0)
		}
	}
	return d.total
}

func (d *deepSizer) walk(v reflect.Value, depth int) {
	if !v.IsValid() || depth > 200 {
		return
	}
	switch v.Kind() {
	case reflect.Ptr:
		if v.IsNil() {
			return
		}
		p := v.UnsafePointer()
		if d.seen[p] {
			return
		}
		d.seen[p] = true
		d.add(v.Type(), int(v.Type().Elem().Size()))
		if v.Type().Elem().Name() == "SearchState" {
			d.states++
		}
		d.walk(v.Elem(), depth+1)
	case reflect.Interface:
		if !v.IsNil() {
			d.walk(v.Elem(), depth+1)
		}
	case reflect.Struct:
		if t := v.Type(); t.PkgPath() == "sync/atomic" && len(t.Name()) > 8 && t.Name()[:8] == "Pointer[" {
			// atomic.Pointer[T] keeps its referent behind an unsafe.Pointer: recover *T from
			// the Load method's result type and follow it like an ordinary pointer (a list
			// threaded through atomic pointers is as reachable as any other)
			if m, ok := reflect.PointerTo(t).MethodByName("Load"); ok && m.Type.NumOut() == 1 {
				for i := 0; i < v.NumField(); i++ {
					if f := v.Field(i); f.Kind() == reflect.UnsafePointer && !f.IsNil() {
						d.walk(reflect.NewAt(m.Type.Out(0).Elem(), f.UnsafePointer()), depth+1)
					}
				}
			}
			return
		}
		tn := ""
		if d.exclBounded {
			tn = v.Type().String()
			if tn == "lazy.DFACache" {
				return
			}
		}
		for i := 0; i < v.NumField(); i++ {
			if tn == "nfa.BacktrackerState" && v.Type().Field(i).Name == "Visited" {
				continue
			}
			d.walk(v.Field(i), depth+1)
		}
	case reflect.Slice:
		if v.IsNil() {
			return
		}
		p := v.UnsafePointer()
		if v.Cap() > 0 && d.seen[p] {
			return
		}
		if v.Cap() > 0 {
			d.seen[p] = true
		}
		d.add(v.Type(), v.Cap()*int(v.Type().Elem().Size()))
		if hasPointers(v.Type().Elem()) {
			for i := 0; i < v.Len(); i++ {
				d.walk(v.Index(i), depth+1)
			}
		}
	case reflect.Array:
		if hasPointers(v.Type().Elem()) {
			for i := 0; i < v.Len(); i++ {
				d.walk(v.Index(i), depth+1)
			}
		}
	case reflect.Map:
		if v.IsNil() {
			return
		}
		p := v.UnsafePointer()
		if d.seen[p] {
			return
		}
		d.seen[p] = true
		d.add(v.Type(), v.Len()*int(v.Type().Key().Size()+v.Type().Elem().Size()+8))
		if hasPointers(v.Type().Elem()) || hasPointers(v.Type().Key()) {
			it := v.MapRange()
			for it.Next() {
				d.walk(it.Key(), depth+1)
				d.walk(it.Value(), depth+1)
			}
		}
	case reflect.String:
		d.add(v.Type(), v.Len())
	}
}

var ptrCache = map[reflect.Type]bool{}

func hasPointers(t reflect.Type) bool {
	if r, ok := ptrCache[t]; ok {
		return r
	}
	ptrCache[t] = false // break cycles
	res := false
	switch t.Kind() {
	case reflect.Ptr, reflect.Interface, reflect.Slice, reflect.Map, reflect.String, reflect.UnsafePointer:
		res = true
	case reflect.Struct:
		for i := 0; i < t.NumField(); i++ {
			if hasPointers(t.Field(i).Type) {
				res = true
			}
		}
	case reflect.Array:
		res = hasPointers(t.Elem())
	}
	ptrCache[t] = res
	return res
}

// reachableSearchStates counts the per-search states a Regex keeps alive (slot,
// pools, any other list), found by reflection.
func reachableSearchStates(roots ...any) int {
	d := &deepSizer{seen: map[unsafe.Pointer]bool{}}
	for _, r := range roots {
		if r != nil {
			d.walk(reflect.ValueOf(r), 0)
		}
	}
	return d.states
}
