package main

import (
	"encoding/hex"
	"encoding/json"
	"fmt"
	"os"
	"runtime"
	"strings"
	"time"

	"github.com/coregx/coregex"
	"github.com/coregx/coregex/meta"
	"github.com/coregx/coregex/nfa"
	"github.com/coregx/coregex/simrt"
)

// HStep is one step of a history on a small set of live Regex values.
//
//	op        checked call Op on value V (result must equal a fresh value's)
//	burst     K repetitions of Op on value V (all results equal; last one checked)
//	longest   V.Longest()
//	copy      values = append(values, V.Copy())
//	twin      values = append(values, Compile(same pattern, same knobs))  (default mode)
//	unmarshal V.UnmarshalText(V.MarshalText()): V becomes a newly compiled default-mode, default-configuration value in place
//	posix     values = append(values, CompilePOSIX(pattern))             (only with default knobs)
//	gc        every pool loses its content (+ a real runtime.GC when K>0)
//	panic_cb  ReplaceAllFunc on V whose callback panics at the K-th match (recovered by the caller)
//	wrap      steer V's recycled backtracker generation to the value it had K searches ago (time skip by real calls)
//	conc      the calls Ops run on V at the same time under the simulated scheduler (seed K); ages the pool
//	          population through the contended hand-off paths; every result is checked like an op
type HStep struct {
	Kind string `json:"kind"`
	V    int    `json:"v,omitempty"`
	Op   *Op    `json:"op,omitempty"`
	K    int    `json:"k,omitempty"`
	Ops  []Op   `json:"ops,omitempty"`
	Reps int    `json:"reps,omitempty"` // conc: the phase is executed this many times (different schedules)
}

type HScenario struct {
	Engine  string           `json:"engine"`
	Prop    string           `json:"prop"`
	Seed    uint64           `json:"seed"`
	Index   int              `json:"index"`
	Pattern string           `json:"pattern"`
	Knobs   Knobs            `json:"knobs"`
	Hays    []string         `json:"hays_hex"`
	Steps   []HStep          `json:"steps"`
	Pool    simrt.PoolConfig `json:"pool"`
}

type HViolation struct {
	Step    int    `json:"step"`
	Kind    string `json:"kind"` // result | repeat | invariant
	What    string `json:"what"`
	Got     string `json:"got,omitempty"`
	Want    string `json:"want,omitempty"`
	Longest bool   `json:"longest"`
}

type HOutcome struct {
	Class           string       `json:"class"` // "" | result | invariant | compile
	Violations      []HViolation `json:"violations,omitempty"`
	Strategy        string
	Checked         int
	Diverged        int      // mismatches explained by a pure engine/configuration divergence (see engineDivergence)
	States          []uint64 `json:"-"` // abstract-state hashes observed before checked calls
	Nontrivial      bool
	Clears          int
	MaxGen          int
	Pool            simrt.PoolStats
	LogHash         uint64
	Funcs           []string `json:"rare_funcs,omitempty"`             // library functions the first failing call entered (filled on failure)
	HistFuncs       []string `json:"history_funcs,omitempty"`          // cache-full handling functions entered anywhere in the history up to the failing step
	PrefilterMisses bool     `json:"prefilter_misses_match,omitempty"` // the engine's prefilter does not report the start of a reference match on the failing call's haystack
	AccelOverDead   bool     `json:"accel_over_dead,omitempty"`        // some lazy-DFA cache of the failing value holds an accelerated state with a dead transition
}

func (sc *HScenario) hays() ([][]byte, []string) {
	hb := make([][]byte, len(sc.Hays))
	hs := make([]string, len(sc.Hays))
	for i, h := range sc.Hays {
		b, err := hex.DecodeString(h)
		if err != nil {
			panic(err)
		}
		hb[i] = b
		hs[i] = string(b)
	}
	return hb, hs
}

// ---- generation -------------------------------------------------------------

func genHistory(prop string, seed uint64, index int, tier string) *HScenario {
	r := newRng(seed)
	sc := &HScenario{Engine: "history", Prop: prop, Seed: seed, Index: index}
	pr := r.fork(1)
	sc.Pattern = pickPattern(pr)
	if pr.p(1, 4) {
		sc.Pattern = mutatePattern(pr, sc.Pattern)
	}
	kr := r.fork(2)
	sc.Knobs = genKnobs(kr, hookedKnobsAllowed)
	if prop == "C10" {
		sc.Knobs.Longest = false // the mode is driven by steps
	}
	re := parsePattern(sc.Pattern)
	genASCII = r.fork(9).p(1, 3) // a third of the scenarios: 7-bit haystacks (ASCII-only fast paths)
	alpha := patternAlphabet(sc.Pattern)
	hr := r.fork(3)
	nh := hr.between(2, 6)
	for i := 0; i < nh; i++ {
		cls := sizeClass(hr, tier)
		if i == 0 && hr.p(1, 3) {
			cls = 3 // size swings need at least one long haystack
		}
		if tier == "thorough" && hr.p(1, 40) {
			cls = 4
		}
		sc.Hays = append(sc.Hays, hex.EncodeToString(genHaystack(hr, sc.Pattern, re, alpha, cls)))
	}
	lens := make([]int, nh)
	for i, h := range sc.Hays {
		lens[i] = len(h) / 2
	}
	or := r.fork(4)
	n := or.between(5, 40)
	if tier == "thorough" {
		n = or.between(5, 60)
	}
	nvals := 1
	for i := 0; i < n; i++ {
		x := or.n(100)
		v := or.n(nvals)
		h := or.n(nh)
		if (prop == "C10" || prop == "C20") && or.p(1, 12) {
			x = 99 // more concurrent phases: the pool population is the channel a stale mode travels through
		}
		switch {
		case x < 70:
			op := genOp(or, h, lens[h])
			sc.Steps = append(sc.Steps, HStep{Kind: "op", V: v, Op: &op})
		case x < 78:
			op := genOp(or, h, lens[h])
			k := pick(or, []int{2, 3, 10, 100, 1000})
			if lens[h] > 200 && k > 100 {
				k = 100
			}
			if lens[h] <= 64 && or.p(1, 12) {
				// very many calls: thresholds and counters that only move after thousands of uses
				k = 5000
				if tier == "thorough" && or.p(1, 4) {
					k = 70000 // past a 16-bit wrap
				}
			}
			sc.Steps = append(sc.Steps, HStep{Kind: "burst", V: v, Op: &op, K: k})
		case x < 82:
			sc.Steps = append(sc.Steps, HStep{Kind: "gc", K: or.n(8) / 7})
		case x < 85:
			sc.Steps = append(sc.Steps, HStep{Kind: "panic_cb", V: v, Op: &Op{API: "ReplaceAllFunc", H: h}, K: or.between(1, 3)})
		case x < 88:
			if prop == "C10" || or.p(1, 3) {
				sc.Steps = append(sc.Steps, HStep{Kind: "longest", V: v})
			}
		case x < 92:
			if nvals < 4 && (prop == "C10" || or.p(1, 3)) {
				sc.Steps = append(sc.Steps, HStep{Kind: "copy", V: v})
				nvals++
			}
		case x < 95:
			if nvals < 4 && (prop == "C10" || or.p(1, 3)) {
				sc.Steps = append(sc.Steps, HStep{Kind: "twin"})
				nvals++
			}
		case x < 97:
			if nvals < 4 && prop == "C10" && sc.Knobs == (Knobs{}) {
				sc.Steps = append(sc.Steps, HStep{Kind: "posix"})
				nvals++
			}
		case x < 98:
			if or.p(1, 4) {
				sc.Steps = append(sc.Steps, HStep{Kind: "unmarshal", V: v})
			} else {
				sc.Steps = append(sc.Steps, HStep{Kind: "wrap", V: v, Op: &Op{API: "FindIndex", H: h}, K: or.between(1, 3)})
			}
		default:
			n := or.between(2, 3)
			var ops []Op
			for j := 0; j < n; j++ {
				hh := or.n(nh)
				ops = append(ops, genOp(or, hh, lens[hh]))
			}
			reps := 1
			if prop == "C20" {
				reps = pick(or, []int{1, 5, 20})
			}
			sc.Steps = append(sc.Steps, HStep{Kind: "conc", V: v, Ops: ops, K: or.n(1 << 30), Reps: reps})
		}
	}
	// make sure the history ends with checked calls on every value
	for v := 0; v < nvals; v++ {
		h := or.n(nh)
		op := genOp(or, h, lens[h])
		sc.Steps = append(sc.Steps, HStep{Kind: "op", V: v, Op: &op})
	}
	fr := r.fork(5)
	sc.Pool.Seed = fr.u64()
	if prop != "C20" {
		switch fr.n(4) {
		case 1:
			sc.Pool.DropRate = pick(fr, []uint32{4096, 16384, 65535})
		case 2:
			sc.Pool.MissRate = pick(fr, []uint32{4096, 16384})
			sc.Pool.AnyRate = pick(fr, []uint32{0, 32768})
		case 3:
			sc.Pool.DropRate = pick(fr, []uint32{0, 4096, 16384})
			sc.Pool.MissRate = pick(fr, []uint32{0, 4096, 16384})
			sc.Pool.AnyRate = pick(fr, []uint32{0, 16384, 65535})
		}
	}
	return sc
}

// hookedKnobsAllowed says whether histories may use hook-only knobs (tiny caches,
// small visited caps). Set from the command line (-hooks).
var hookedKnobsAllowed = true

// ---- execution --------------------------------------------------------------

type liveValue struct {
	re      *coregex.Regex
	longest bool
	knobs   Knobs // configuration the value was built with (Copy and CompilePOSIX build with defaults)
}

func freshFor(sc *HScenario, lv *liveValue) *coregex.Regex {
	k := lv.knobs
	k.Longest = lv.longest
	re, err := compile(sc.Pattern, k)
	if err != nil {
		panic(err)
	}
	return re
}

// engineDivergence reports whether got is the answer a FRESH value gives to op
// under another valid configuration of the same pattern and mode: NFA only, or the
// default configuration. If so, the used value answered exactly like some fresh
// value; that the answer depends on the configuration (which engine ran: the
// lazy DFA, its NFA fallback, a reverse fast path, a truncated literal set) is a
// pure divergence between engines - C12/C14/C19 territory, which this technique
// does not decide - and not corruption of recycled state.
func engineDivergence(sc *HScenario, lv *liveValue, op *Op, hb [][]byte, hs []string, got string) bool {
	var refs []string
	for _, k := range []Knobs{{NoDFA: true, NoPrefilter: true}, {}} {
		k.Longest = lv.longest
		ref, err := compile(sc.Pattern, k)
		if err != nil {
			continue
		}
		r := execOp(ref, op, hb, hs)
		if r == got {
			return true
		}
		refs = append(refs, r)
	}
	// The two fresh references disagree with each other on this very call: the engines
	// diverge on this input (a pure defect), and an enumeration on a used value may mix
	// answers of both (part of it served by the DFA, part by its NFA fallback).
	return len(refs) == 2 && refs[0] != refs[1]
}

// prefilterMissesMatch reports whether the prefix prefilter of a value built with
// knobs k fails to report the start of some match the NFA-only reference finds in
// haystack h - i.e. the literal set is not a necessary condition for a match
// (unsound extraction), which makes every skip-ahead engine position-dependent.
func prefilterMissesMatch(pattern string, k Knobs, h []byte) bool {
	re, err := compile(pattern, k)
	if err != nil {
		return false
	}
	pf := re.VerifEngine().VerifPrefilter()
	if pf == nil {
		return false
	}
	ref, err := compile(pattern, Knobs{NoDFA: true, NoPrefilter: true, Longest: k.Longest})
	if err != nil {
		return false
	}
	cands := map[int]bool{}
	for pos := 0; pos <= len(h); {
		c := pf.Find(h, pos)
		if c < 0 {
			break
		}
		cands[c] = true
		pos = c + 1
	}
	for _, m := range ref.FindAllIndex(h, -1) {
		if !cands[m[0]] {
			return true
		}
	}
	return false
}

// valueAccelOverDead reports whether any lazy-DFA cache the value can hand out (slot, state
// pool, the reverse searchers' cache pools) holds an accelerated state that has a dead
// transition (listed finding KF-C13-accel-dead-transitions).
func valueAccelOverDead(re *coregex.Regex) bool {
	e := re.VerifEngine()
	hit := false
	add := func(st *meta.SearchState) {
		for _, c := range st.VerifInfo().Caches {
			if c.AccelOverDead > 0 {
				hit = true
			}
		}
	}
	if st := e.VerifLocalState(); st != nil {
		add(st)
	}
	if p, ok := e.VerifStatePool().(*simrt.Pool); ok {
		for _, it := range p.Items() {
			if st, ok := it.(*meta.SearchState); ok {
				add(st)
			}
		}
	}
	for _, pp := range e.VerifCachePools() {
		if p, ok := pp.(*simrt.Pool); ok {
			for _, it := range p.Items() {
				if c, ok := it.(interface{ VerifAccelOverDead() int }); ok && c.VerifAccelOverDead() > 0 {
					hit = true
				}
			}
		}
	}
	return hit
}

// abstractState summarises the recycled state that will serve the next call on re.
func abstractState(re *coregex.Regex, strategy string, longest bool) (uint64, int, int) {
	e := re.VerifEngine()
	h := newHasher()
	h.str(strategy)
	if longest {
		h.int(1)
	}
	clears, gen := 0, 0
	add := func(st *meta.SearchState) {
		info := st.VerifInfo()
		for _, role := range []string{"fwd", "rev", "sfwd", "srev"} {
			if c, ok := info.Caches[role]; ok {
				fill := 0
				if c.Capacity > 0 {
					fill = c.MemoryUsage * 4 / c.Capacity
				}
				h.str(role)
				h.int(int64(fill))
				h.int(int64(c.ClearCount))
				clears += c.ClearCount
			}
		}
		if info.HasBT {
			g := int(info.Generation)
			gen = g
			bucket := 0
			switch {
			case g == 0:
				bucket = 0
			case g > 65535-8:
				bucket = 3
			case g > 1000:
				bucket = 2
			default:
				bucket = 1
			}
			h.int(int64(bucket))
			switch {
			case info.VisitedCap == 0:
				h.int(0)
			case info.VisitedCap > info.VisitedLen:
				h.int(2)
			default:
				h.int(1)
			}
		}
	}
	if st := e.VerifLocalState(); st != nil {
		h.int(7)
		add(st)
	}
	if p, ok := e.VerifStatePool().(*simrt.Pool); ok {
		n := len(p.Items())
		if n > 2 {
			n = 2
		}
		h.int(int64(n))
		for _, it := range p.Items() {
			if st, ok := it.(*meta.SearchState); ok {
				add(st)
				break
			}
		}
	}
	return uint64(h), clears, gen
}

// checkInvariants evaluates the C20 bounds on every recycled state reachable from re.
func checkInvariants(re *coregex.Regex) []string {
	e := re.VerifEngine()
	var bad []string
	nfaStates := map[string]int{}
	for role, d := range e.VerifDFAs() {
		nfaStates[role] = d.VerifNFAStates()
	}
	maxNFA := 0
	for _, n := range nfaStates {
		if n > maxNFA {
			maxNFA = n
		}
	}
	maxVisited := 0
	for i, bt := range e.VerifBacktrackers() {
		if i == 0 {
			maxVisited = bt.MaxVisitedSize()
		}
	}
	checkCache := func(where string, c interface {
		VerifInfo() lazyInfo
	}) {
	}
	_ = checkCache
	checkState := func(where string, st *meta.SearchState) {
		info := st.VerifInfo()
		for role, c := range info.Caches {
			oneState := 4*c.Stride + 4*maxNFA + 128
			used := c.MemoryUsage
			if c.Recounted > used {
				used = c.Recounted // footprint recounted from the cache's content, independent of the library's own bookkeeping
			}
			if used > c.Capacity+oneState {
				bad = append(bad, fmt.Sprintf("%s: %s cache uses %d bytes (library reports %d), capacity %d (+ one state %d)", where, role, used, c.MemoryUsage, c.Capacity, oneState))
			}
		}
		if info.HasBT && maxVisited > 0 && info.VisitedCap > maxVisited {
			bad = append(bad, fmt.Sprintf("%s: visited table cap %d entries exceeds the backtracker's cap %d", where, info.VisitedCap, maxVisited))
		}
	}
	if st := e.VerifLocalState(); st != nil {
		checkState("local", st)
	}
	if p, ok := e.VerifStatePool().(*simrt.Pool); ok {
		for _, it := range p.Items() {
			if st, ok := it.(*meta.SearchState); ok {
				checkState("pooled", st)
			}
		}
	}
	for role, pp := range e.VerifCachePools() {
		if p, ok := pp.(*simrt.Pool); ok {
			for _, it := range p.Items() {
				if c, ok := it.(interface{ VerifInfo() lazyInfo }); ok {
					ci := c.VerifInfo()
					oneState := 4*ci.Stride + 4*maxNFA + 128
					used := ci.MemoryUsage
					if ci.Recounted > used {
						used = ci.Recounted
					}
					if used > ci.Capacity+oneState {
						bad = append(bad, fmt.Sprintf("pool %s: cache uses %d bytes (library reports %d), capacity %d (+ one state %d)", role, used, ci.MemoryUsage, ci.Capacity, oneState))
					}
				}
			}
		}
	}
	for _, bt := range e.VerifBacktrackers() {
		if p, ok := bt.VerifStatePool().(*simrt.Pool); ok {
			for _, it := range p.Items() {
				if st, ok := it.(*nfa.BacktrackerState); ok && cap(st.Visited) > bt.MaxVisitedSize() {
					bad = append(bad, fmt.Sprintf("backtracker pool: visited table cap %d exceeds cap %d", cap(st.Visited), bt.MaxVisitedSize()))
				}
			}
		}
	}
	return bad
}

// traceReq asks runHistory to execute the checked call of one step with block
// counting on, and to report which library functions that call entered.
type traceReq struct {
	Step  int
	Funcs []string
}

func runHistory(sc *HScenario) *HOutcome { return runHistoryT(sc, nil) }

func runHistoryT(sc *HScenario, tr *traceReq) *HOutcome {
	out := &HOutcome{}
	hb, hs := sc.hays()
	simrt.PoolEpoch(sc.Pool)
	first, err := compile(sc.Pattern, sc.Knobs)
	if err != nil {
		out.Class = "compile"
		return out
	}
	out.Strategy = first.VerifEngine().Strategy().String()
	vals := []*liveValue{{re: first, longest: sc.Knobs.Longest, knobs: sc.Knobs}}
	lh := newHasher()
	served := map[int]int{} // value -> last haystack index used
	maxConc := 1
	fail := func(v HViolation) {
		if len(out.Violations) < 8 {
			out.Violations = append(out.Violations, v)
		}
		if v.Kind != "invariant" && !out.AccelOverDead {
			for _, lv := range vals {
				if valueAccelOverDead(lv.re) {
					out.AccelOverDead = true
				}
			}
		}
		if out.Class == "" || (out.Class == "invariant" && v.Kind != "invariant") {
			out.Class = v.Kind
			if v.Kind == "repeat" {
				out.Class = "result"
			}
		}
	}
	for si := range sc.Steps {
		st := &sc.Steps[si]
		if st.V >= len(vals) {
			continue
		}
		lv := vals[st.V]
		switch st.Kind {
		case "op", "burst":
			ah, clears, gen := abstractState(lv.re, out.Strategy, lv.longest)
			out.States = append(out.States, ah)
			if clears > out.Clears {
				out.Clears = clears
			}
			if gen > out.MaxGen {
				out.MaxGen = gen
			}
			if prev, ok := served[st.V]; ok && prev != st.Op.H {
				out.Nontrivial = true
			}
			served[st.V] = st.Op.H
			var got string
			if tr != nil && tr.Step == si && globalSites != nil {
				res := simrt.Run(simrt.Config{Policy: simrt.PolSerial, NumSites: len(globalSites.Sites), CountSite: true}, []func(){func() {
					got = execOp(lv.re, st.Op, hb, hs)
				}})
				tr.Funcs = visitedFuncs(res.SiteVisits)
			} else {
				got = execOp(lv.re, st.Op, hb, hs)
			}
			if st.Kind == "burst" {
				for k := 1; k < st.K; k++ {
					g2 := execOp(lv.re, st.Op, hb, hs)
					if g2 != got && engineDivergence(sc, lv, st.Op, hb, hs, g2) {
						out.Diverged++
						break
					}
					if g2 != got {
						fail(HViolation{Step: si, Kind: "repeat", What: fmt.Sprintf("repetition %d of %s returned a different result", k, st.Op.API), Got: trunc(g2, 300), Want: trunc(got, 300), Longest: lv.longest})
						break
					}
				}
			}
			// reference model: a fresh value used for this one call
			out.Checked++
			lh.str(got)
			if sc.Prop == "C20" {
				break // C20 decides the memory invariants only; answers are C13's business
			}
			want := execOp(freshFor(sc, lv), st.Op, hb, hs)
			if got != want && engineDivergence(sc, lv, st.Op, hb, hs, got) {
				out.Diverged++
			} else if got != want {
				fail(HViolation{Step: si, Kind: "result", What: fmt.Sprintf("%s on the used value differs from a fresh value", st.Op.API), Got: trunc(got, 300), Want: trunc(want, 300), Longest: lv.longest})
			}
		case "longest":
			lv.re.Longest()
			lv.longest = true
		case "copy":
			c := lv.re.Copy()
			if c == nil {
				fail(HViolation{Step: si, Kind: "result", What: "Copy returned nil"})
				continue
			}
			vals = append(vals, &liveValue{re: c, longest: lv.longest}) // Copy recompiles with the default configuration
		case "unmarshal":
			// encoding.TextUnmarshaler round trip on a used value: the value is replaced in
			// place by a newly compiled one (default configuration, default mode); nothing of
			// its former life may show afterwards
			txt, err := lv.re.MarshalText()
			if err != nil || lv.re.UnmarshalText(txt) != nil {
				fail(HViolation{Step: si, Kind: "result", What: fmt.Sprintf("MarshalText/UnmarshalText round trip failed: %v", err)})
				continue
			}
			lv.longest = false
			lv.knobs = Knobs{}
		case "twin":
			k := sc.Knobs
			k.Longest = false
			re, err := compile(sc.Pattern, k)
			if err == nil {
				vals = append(vals, &liveValue{re: re, knobs: k})
			}
		case "posix":
			re, err := coregex.CompilePOSIX(sc.Pattern)
			if err == nil {
				vals = append(vals, &liveValue{re: re, longest: true})
			}
		case "gc":
			simrt.PoolFlush()
			if st.K > 0 {
				runtime.GC()
			}
		case "panic_cb":
			func() {
				defer func() { recover() }()
				n := 0
				lv.re.ReplaceAllFunc(hb[st.Op.H], func(m []byte) []byte {
					n++
					if n >= st.K {
						panic("callback failure injected by the simulator")
					}
					return m
				})
			}()
		case "wrap":
			steerWrap(lv.re, st, hb, hs)
		case "conc":
			reps := st.Reps
			if reps < 1 {
				reps = 1
			}
			for rep := 0; rep < reps; rep++ {
				concPhase(sc, st, si, rep, lv, hb, hs, out, &lh, fail)
			}
			out.Nontrivial = true
		}
		if st.Kind == "conc" && len(st.Ops) > maxConc {
			maxConc = len(st.Ops)
		}
		if sc.Prop == "C20" && (st.Kind == "conc" || si == len(sc.Steps)-1) {
			// I6: a Regex keeps at most one per-search state per caller it ever had at the
			// same time, times two (a callback may re-enter the value once per caller), plus slack
			for vi, lv := range vals {
				if n := reachableSearchStates(lv.re, lv.re.VerifEngine().VerifLocalState()); n > 2*maxConc+2 {
					fail(HViolation{Step: si, Kind: "invariant", What: fmt.Sprintf("value %d keeps %d per-search states alive, but never had more than %d simultaneous callers", vi, n, maxConc)})
				}
			}
		}
		if sc.Prop == "C20" || si == len(sc.Steps)-1 {
			for _, lv := range vals {
				for _, b := range checkInvariants(lv.re) {
					fail(HViolation{Step: si, Kind: "invariant", What: b})
				}
			}
		}
	}
	ps, tape := simrt.PoolReport()
	out.Pool = ps
	for _, d := range tape {
		lh.int(int64(d))
	}
	out.LogHash = uint64(lh)
	return out
}

// concPhase runs the calls of a conc step at the same time under the simulated
// scheduler and checks every result like an op.
func concPhase(sc *HScenario, st *HStep, si, rep int, lv *liveValue, hb [][]byte, hs []string, out *HOutcome, lh *hasher, fail func(HViolation)) {
	got := make([]string, len(st.Ops))
	fns := make([]func(), len(st.Ops))
	for j := range st.Ops {
		j := j
		fns[j] = func() { got[j] = execOp(lv.re, &st.Ops[j], hb, hs) }
	}
	nsites := 16
	if globalSites != nil {
		nsites = len(globalSites.Sites)
	}
	if simrt.Current() >= 0 {
		// already inside a counting run (attribution replay): no nested scheduler,
		// the calls run one after another
		for _, f := range fns {
			f()
		}
	} else {
		// hand-off points (pool get/put, lock just acquired/released) are preempted
		// half of the time on top of the random walk: contention on them is what a
		// concurrent phase is for
		simrt.Run(simrt.Config{Policy: simrt.PolRandom, Seed: uint64(st.K) + uint64(rep)*977, Mean: int64(8 + st.K%200), NumSites: nsites, MaxSteps: 1 << 40,
			HotSites: []uint32{1, 2, 3, 4}, HotRate: 32768}, fns)
	}
	for j := range st.Ops {
		lh.str(got[j])
		out.Checked++
		if sc.Prop == "C20" {
			continue
		}
		want := execOp(freshFor(sc, lv), &st.Ops[j], hb, hs)
		if got[j] != want && engineDivergence(sc, lv, &st.Ops[j], hb, hs, got[j]) {
			out.Diverged++
		} else if got[j] != want {
			fail(HViolation{Step: si, Kind: "result", What: fmt.Sprintf("%s, run at the same time as %d other call(s) on the used value, differs from a fresh value", st.Ops[j].API, len(st.Ops)-1), Got: trunc(got[j], 300), Want: trunc(want, 300), Longest: lv.longest})
		}
	}
}

// steerWrap is the "time skip": by real calls only, it brings the generation
// counter of the backtracker state that serves value re to the value it had
// before an earlier long search, so that stale visited marks (if any survive)
// collide with a later search.
func steerWrap(re *coregex.Regex, st *HStep, hb [][]byte, hs []string) {
	e := re.VerifEngine()
	ls := e.VerifLocalState()
	if ls == nil || !ls.VerifInfo().HasBT {
		return
	}
	before := ls.VerifInfo().Generation
	execOp(re, st.Op, hb, hs) // the long search whose marks we want to meet again
	ls = e.VerifLocalState()
	if ls == nil {
		return
	}
	target := before // next search increments to before+1, the first generation of that search
	tiny := []byte("ab")
	for i := 0; i < 200000; i++ {
		ls = e.VerifLocalState()
		if ls == nil {
			return
		}
		if ls.VerifInfo().Generation == target {
			return
		}
		re.Match(tiny)
	}
}

// ---- batch ------------------------------------------------------------------

func historyBatch(prop string, base uint64, from, to int, tier string, logHashes bool, budget time.Duration, start time.Time, emit func(any)) {
	sum := &Summary{Kind: "summary", Engine: "history", From: from, To: to, Failures: map[string]int{}, Policies: map[string]int{}, Strategies: map[string]int{},
		Cells: map[string]int{}, Knobs: map[string]int{}, Probes: map[string]int64{}, Extra: map[string]any{}}
	if logHashes {
		sum.LogHashes = map[int]uint64{}
	}
	stateSet := map[uint64]bool{}
	checked := 0
	stepKinds := map[string]int{}
	for i := from; i < to; i++ {
		if budget > 0 && time.Since(start) > budget {
			sum.To = i
			break
		}
		seed := runSeed(base, i)
		sc := genHistory(prop, seed, i, tier)
		out := runHistory(sc)
		if out.Class == "compile" {
			continue
		}
		sum.Runs++
		sum.Strategies[out.Strategy]++
		checked += out.Checked
		for _, st := range sc.Steps {
			stepKinds[st.Kind]++
			if st.Op != nil {
				sum.Cells[out.Strategy+"|"+st.Op.API]++
			}
		}
		if sc.Knobs.hooked() {
			sum.Knobs["hooked_capacity"]++
		}
		if sc.Knobs.Longest {
			sum.Knobs["longest"]++
		}
		sum.PoolGets += int64(out.Pool.Gets)
		sum.PoolPuts += int64(out.Pool.Puts)
		sum.PoolNews += int64(out.Pool.News)
		sum.PoolDrops += int64(out.Pool.Drops)
		sum.PoolMisses += int64(out.Pool.Misses)
		sum.PoolReorder += int64(out.Pool.Reorders)
		if out.Clears > 0 {
			sum.Probes["histories_with_cache_clear"]++
		}
		sum.Probes["mismatches_attributed_to_pure_engine_divergence"] += int64(out.Diverged)
		if out.MaxGen > 60000 {
			sum.Probes["histories_near_generation_wrap"]++
		}
		if out.Nontrivial {
			for _, s := range out.States {
				stateSet[s] = true
			}
			h := newHasher()
			h.str(sc.Pattern)
			b, _ := json.Marshal(sc.Steps)
			h.str(string(b))
			b, _ = json.Marshal(sc.Knobs)
			h.str(string(b))
			sum.Nontrivial = append(sum.Nontrivial, uint64(h))
		}
		if logHashes {
			sum.LogHashes[i] = out.LogHash
		}
		if len(sum.Samples) < 2 && out.Nontrivial {
			steps := sc.Steps
			if len(steps) > 12 {
				steps = steps[:12]
			}
			sum.Samples = append(sum.Samples, map[string]any{"index": i, "seed": seed, "pattern": sc.Pattern, "knobs": sc.Knobs, "strategy": out.Strategy,
				"first_steps": steps, "n_steps": len(sc.Steps), "haystack_lens": hLens(sc.Hays), "checked_calls": out.Checked, "pool": out.Pool})
		}
		if out.Class != "" {
			sum.Failures[out.Class]++
			out.Funcs = rareFuncs(sc)
			out.HistFuncs = historyFuncs(sc)
			out.PrefilterMisses = failingCallPrefilterMisses(sc, out)
			emit(FailLine{Kind: "failure", Engine: "history", Index: i, Seed: seed, Outcome: out, Scenario: sc})
		}
	}
	sum.Extra["checked_calls"] = checked
	sum.Extra["step_kinds"] = stepKinds
	states := make([]uint64, 0, len(stateSet))
	for s := range stateSet {
		states = append(states, s)
	}
	sum.Extra["abstract_states"] = states
	sum.WallS = time.Since(start).Seconds()
	emit(sum)
}

func hLens(h []string) []int {
	var l []int
	for _, x := range h {
		l = append(l, len(x)/2)
	}
	return l
}

// rareFuncs re-executes the history and reports which library functions the
// first failing checked call entered (known findings are keyed by call site).
var globalSites *SiteTable

func visitedFuncs(visits []uint32) []string {
	seen := map[string]bool{}
	for id, v := range visits {
		if v == 0 || id >= len(globalSites.Sites) {
			continue
		}
		s := globalSites.Sites[id]
		if s.Kind == "func" && s.File != "" {
			dir := s.File
			if k := strings.LastIndex(dir, "/"); k >= 0 {
				dir = dir[:k]
			} else {
				dir = "coregex"
			}
			seen[dir+"."+s.Func] = true
		}
	}
	var out []string
	for f := range seen {
		out = append(out, f)
	}
	sortStrings(out)
	return out
}

func rareFuncs(sc *HScenario) []string {
	if globalSites == nil || len(globalSites.Sites) <= 16 {
		return nil
	}
	first := runHistory(cloneH(sc))
	if len(first.Violations) == 0 {
		return nil
	}
	tr := &traceReq{Step: first.Violations[0].Step}
	func() {
		defer func() { recover() }()
		runHistoryT(cloneH(sc), tr)
	}()
	return tr.Funcs
}

// historyFuncs reports which of the cache-full handling functions ran anywhere in
// the history up to and including its first failing step.
var cacheFullFuncs = []string{"dfa/lazy.DFA.tryClearCache", "dfa/lazy.DFA.nfaFallback", "dfa/lazy.DFA.nfaFallbackReverse"}

func historyFuncs(sc *HScenario) []string {
	if globalSites == nil || len(globalSites.Sites) <= 16 {
		return nil
	}
	first := runHistory(cloneH(sc))
	if len(first.Violations) == 0 {
		return nil
	}
	c := cloneH(sc)
	c.Steps = c.Steps[:first.Violations[0].Step+1]
	var res simrt.Result
	func() {
		defer func() { recover() }()
		res = simrt.Run(simrt.Config{Policy: simrt.PolSerial, NumSites: len(globalSites.Sites), CountSite: true}, []func(){func() { runHistory(c) }})
	}()
	var out []string
	for _, f := range visitedFuncs(res.SiteVisits) {
		for _, w := range cacheFullFuncs {
			if f == w {
				out = append(out, f)
			}
		}
	}
	return out
}

// failingCallPrefilterMisses evaluates prefilterMissesMatch for the haystack(s) of
// the first failing step, with the knobs of the scenario and with defaults (copies
// are compiled with defaults).
func failingCallPrefilterMisses(sc *HScenario, out *HOutcome) bool {
	if len(out.Violations) == 0 {
		return false
	}
	st := sc.Steps[out.Violations[0].Step]
	hb, _ := sc.hays()
	var hi []int
	if st.Op != nil {
		hi = append(hi, st.Op.H)
	}
	for _, o := range st.Ops {
		hi = append(hi, o.H)
	}
	for _, h := range hi {
		for _, longest := range []bool{false, true} {
			k := sc.Knobs
			k.Longest = longest
			if prefilterMissesMatch(sc.Pattern, k, hb[h]) || prefilterMissesMatch(sc.Pattern, Knobs{Longest: longest}, hb[h]) {
				return true
			}
		}
	}
	return false
}

func sortStrings(s []string) {
	for i := 1; i < len(s); i++ {
		for j := i; j > 0 && s[j] < s[j-1]; j-- {
			s[j], s[j-1] = s[j-1], s[j]
		}
	}
}

func loadHScenario(path string) (*HScenario, error) {
	b, err := os.ReadFile(path)
	if err != nil {
		return nil, err
	}
	var rf struct {
		Scenario *HScenario `json:"scenario"`
	}
	if err := json.Unmarshal(b, &rf); err != nil {
		return nil, err
	}
	if rf.Scenario == nil {
		return nil, fmt.Errorf("no scenario in %s", path)
	}
	return rf.Scenario, nil
}

func replayHistory(path string, emit func(any)) int {
	sc, err := loadHScenario(path)
	if err != nil {
		fmt.Fprintln(os.Stderr, err)
		return 2
	}
	out := runHistory(sc)
	if out.Class != "" {
		out.Funcs = rareFuncs(sc)
		out.HistFuncs = historyFuncs(sc)
		out.PrefilterMisses = failingCallPrefilterMisses(sc, out)
	}
	emit(FailLine{Kind: "replay", Engine: "history", Index: sc.Index, Seed: sc.Seed, Outcome: out, Scenario: sc})
	if out.Class != "" {
		return 1
	}
	return 0
}

func cloneH(sc *HScenario) *HScenario {
	b, _ := json.Marshal(sc)
	var c HScenario
	json.Unmarshal(b, &c)
	return &c
}

func hKey(o *HOutcome) string {
	if len(o.Violations) == 0 {
		return o.Class
	}
	v := o.Violations[0]
	w := v.What
	if i := strings.Index(w, ":"); i > 0 && v.Kind == "invariant" {
		w = w[:i]
	}
	return o.Class + "/" + v.Kind
}

func minimizeHistory(path string, emit func(any)) int {
	sc, err := loadHScenario(path)
	if err != nil {
		fmt.Fprintln(os.Stderr, err)
		return 2
	}
	first := runHistory(cloneH(sc))
	if first.Class == "" {
		emit(FailLine{Kind: "minimized", Engine: "history", Index: sc.Index, Seed: sc.Seed, Outcome: first, Scenario: sc})
		return 0
	}
	key := hKey(first)
	best := cloneH(sc)
	deadline := time.Now().Add(60 * time.Second)
	try := func(c *HScenario) bool {
		if time.Now().After(deadline) {
			return false
		}
		o := runHistory(cloneH(c))
		if o.Class == first.Class && hKey(o) == key {
			best = c
			return true
		}
		return false
	}
	// cut everything after the first violating step
	if len(first.Violations) > 0 {
		c := cloneH(best)
		c.Steps = c.Steps[:first.Violations[0].Step+1]
		try(c)
	}
	changed := true
	for changed && time.Now().Before(deadline) {
		changed = false
		if best.Pool.DropRate != 0 || best.Pool.MissRate != 0 || best.Pool.AnyRate != 0 {
			c := cloneH(best)
			c.Pool = simrt.PoolConfig{}
			if try(c) {
				changed = true
			}
		}
		// drop steps: chunks first, then single steps (keep the last one)
		for chunk := len(best.Steps) / 2; chunk >= 1; chunk /= 2 {
			for i := 0; i+chunk < len(best.Steps); {
				c := cloneH(best)
				c.Steps = append(append([]HStep(nil), c.Steps[:i]...), c.Steps[i+chunk:]...)
				if try(c) {
					changed = true
				} else {
					i += chunk
				}
			}
		}
		// bursts -> fewer repetitions
		for i := range best.Steps {
			if best.Steps[i].Kind == "burst" && best.Steps[i].K > 2 {
				c := cloneH(best)
				c.Steps[i].K = 2
				if try(c) {
					changed = true
				}
			}
		}
		for k := 0; k < 10; k++ {
			c := cloneH(best)
			kn := &c.Knobs
			before := *kn
			switch k {
			case 0:
				kn.NoDFA = false
			case 1:
				kn.NoPrefilter = false
			case 2:
				kn.MaxLiterals = 0
			case 3:
				kn.MinLitLen = 0
			case 4:
				kn.DetLimit = 0
			case 5:
				kn.NoASCII = false
			case 6:
				kn.DFACap = 0
			case 7:
				kn.MaxClears = 0
			case 8:
				kn.MaxVisited = 0
			case 9:
				kn.Longest = false
			}
			if *kn != before && try(c) {
				changed = true
			}
		}
		for h := range best.Hays {
			for _, side := range []int{0, 1} {
				n := len(best.Hays[h]) / 2
				if n < 2 {
					continue
				}
				c := cloneH(best)
				cut := (n / 2) * 2
				if side == 0 {
					c.Hays[h] = c.Hays[h][:cut]
				} else {
					c.Hays[h] = c.Hays[h][len(c.Hays[h])-cut:]
				}
				if try(c) {
					changed = true
				}
			}
		}
	}
	final := runHistory(cloneH(best))
	final.Funcs = rareFuncs(best)
	final.HistFuncs = historyFuncs(best)
	final.PrefilterMisses = failingCallPrefilterMisses(best, final)
	emit(FailLine{Kind: "minimized", Engine: "history", Index: sc.Index, Seed: sc.Seed, Outcome: final, Scenario: best})
	if final.Class == "" {
		return 2
	}
	return 1
}
