// Command worker is the in-process simulator: it is built against an
// instrumented scratch copy of coregex and executes seeded runs of one engine
// (conc, history, stream), printing one JSON line per failing run and a final
// summary line.
package main

import (
	"bufio"
	"encoding/json"
	"flag"
	"fmt"
	"os"
	"sort"
	"strings"
	"time"
)

type Summary struct {
	Kind             string `json:"kind"` // "summary"
	Engine           string `json:"engine"`
	From, To         int
	Runs             int              `json:"runs"`
	Failures         map[string]int   `json:"failures"`
	Steps            int64            `json:"steps"`
	Switches         int64            `json:"switches"`
	Preempts         int64            `json:"preempts"`
	Forced           int64            `json:"forced_fired"`
	OverBudget       int              `json:"over_budget"`
	Policies         map[string]int   `json:"policies"`
	Strategies       map[string]int   `json:"strategies"`
	Cells            map[string]int   `json:"cells"` // strategy|api
	PoolGets         int64            `json:"pool_gets"`
	PoolPuts         int64            `json:"pool_puts"`
	PoolNews         int64            `json:"pool_news"`
	PoolDrops        int64            `json:"pool_drops"`
	PoolMisses       int64            `json:"pool_misses"`
	PoolReorder      int64            `json:"pool_reorders"`
	Knobs            map[string]int   `json:"knobs"`
	Probes           map[string]int64 `json:"probes"`
	SitesHit         int              `json:"sites_hit"`
	SitesTotal       int              `json:"sites_total"`
	PreemptSitesUsed int              `json:"preempt_sites_used"`
	Nontrivial       []uint64         `json:"nontrivial_hashes"`
	LogHashes        map[int]uint64   `json:"log_hashes,omitempty"`
	Samples          []any            `json:"samples,omitempty"`
	WallS            float64          `json:"wall_s"`
	Extra            map[string]any   `json:"extra,omitempty"`
	FuncRuns         map[string]int   `json:"func_runs,omitempty"` // library function -> simulated runs that entered it
}

type FailLine struct {
	Kind     string `json:"kind"` // "failure"
	Engine   string `json:"engine"`
	Index    int    `json:"index"`
	Seed     uint64 `json:"seed"`
	Outcome  any    `json:"outcome"`
	Scenario any    `json:"scenario"`
}

func main() {
	engine := flag.String("engine", "conc", "conc|history|stream|corpus")
	base := flag.Uint64("seed", 1, "base seed")
	from := flag.Int("from", 0, "first run index")
	to := flag.Int("to", 10, "one past last run index")
	tier := flag.String("tier", "quick", "quick|thorough")
	sitesPath := flag.String("sites", "", "site table (json)")
	replay := flag.String("replay", "", "replay file (scenario json)")
	minimize := flag.String("minimize", "", "minimise the failing scenario in this file, write result to -o")
	outPath := flag.String("o", "", "output file (default stdout)")
	logHashes := flag.Bool("loghashes", false, "emit per-run log hashes (determinism self-test)")
	budget := flag.Duration("budget", 0, "stop generating new runs after this wall time")
	prop := flag.String("prop", "", "property id the history engine is asked to decide (C13|C20|C10)")
	flag.BoolVar(&hookedKnobsAllowed, "hooks", true, "allow hook-only knobs (tiny DFA caches, small visited caps)")
	flag.Parse()

	w := bufio.NewWriter(os.Stdout)
	if *outPath != "" {
		f, err := os.Create(*outPath)
		if err != nil {
			fmt.Fprintln(os.Stderr, err)
			os.Exit(2)
		}
		defer f.Close()
		w = bufio.NewWriter(f)
	}
	defer w.Flush()
	exit := func(code int) {
		w.Flush()
		os.Exit(code)
	}
	emit := func(v any) {
		b, err := json.Marshal(v)
		if err != nil {
			fmt.Fprintln(os.Stderr, "marshal:", err)
			os.Exit(2)
		}
		w.Write(b)
		w.WriteByte('\n')
	}

	st := &SiteTable{}
	if *sitesPath != "" {
		b, err := os.ReadFile(*sitesPath)
		if err != nil {
			fmt.Fprintln(os.Stderr, err)
			os.Exit(2)
		}
		var ss []Site
		if err := json.Unmarshal(b, &ss); err != nil {
			fmt.Fprintln(os.Stderr, err)
			os.Exit(2)
		}
		max := 16
		for _, s := range ss {
			if s.ID >= max {
				max = s.ID + 1
			}
		}
		st.Sites = make([]Site, max)
		for _, s := range ss {
			st.Sites[s.ID] = s
		}
	} else {
		st.Sites = make([]Site, 16)
	}
	st.fill()
	globalSites = st

	start := time.Now()
	switch *engine {
	case "corpus":
		emit(strategyTable())
		sig := map[string][]string{}
		if extra := os.Getenv("VSIM_TRY_PATTERNS"); extra != "" {
			// exploration aid: show the engine configuration of candidate corpus patterns
			corpus = strings.Split(extra, "\n")
		}
		for _, p := range corpus {
			k := engineSignature(p)
			sig[k] = append(sig[k], p)
		}
		emit(sig)
	case "conc":
		if *replay != "" {
			exit(replayConc(*replay, st, emit))
		}
		if *minimize != "" {
			exit(minimizeConc(*minimize, st, emit))
		}
		concBatch(*base, *from, *to, *tier, st, *logHashes, *budget, start, emit)
	case "history":
		if *replay != "" {
			exit(replayHistory(*replay, emit))
		}
		if *minimize != "" {
			exit(minimizeHistory(*minimize, emit))
		}
		historyBatch(*prop, *base, *from, *to, *tier, *logHashes, *budget, start, emit)
	case "alloc":
		if *replay != "" {
			exit(replayAlloc(*replay, emit))
		}
		if *minimize != "" {
			exit(replayAlloc(*minimize, emit))
		}
		allocBatch(*base, *from, *to, *tier, *budget, start, emit)
	case "l2":
		if *replay != "" {
			exit(replayL2(*replay, emit))
		}
		if *minimize != "" {
			exit(minimizeL2(*minimize, emit))
		}
		l2Batch(*base, *from, *to, *tier, *budget, start, emit)
	case "stream":
		if *replay != "" {
			exit(replayStream(*replay, emit))
		}
		if *minimize != "" {
			exit(minimizeStream(*minimize, emit))
		}
		streamBatch(*prop, *base, *from, *to, *tier, *budget, start, emit)
	default:
		fmt.Fprintln(os.Stderr, "unknown engine", *engine)
		os.Exit(2)
	}
}

func strategyTable() map[string][]string {
	m := map[string][]string{}
	for _, p := range corpus {
		re, err := compile(p, Knobs{})
		if err != nil {
			m["ERROR"] = append(m["ERROR"], p)
			continue
		}
		s := re.VerifEngine().Strategy().String()
		m[s] = append(m[s], p)
		if pf := re.VerifEngine().VerifPrefilter(); pf != nil {
			k := fmt.Sprintf("prefilter:%T", pf)
			m[k] = append(m[k], p)
		}
	}
	for _, v := range m {
		sort.Strings(v)
	}
	return m
}
