package main

// rng is splitmix64: every choice of a run derives from one 64-bit run seed.
type rng struct{ s uint64 }

func newRng(seed uint64) *rng { return &rng{s: seed} }

func (r *rng) u64() uint64 {
	r.s += 0x9e3779b97f4a7c15
	z := r.s
	z = (z ^ (z >> 30)) * 0xbf58476d1ce4e5b9
	z = (z ^ (z >> 27)) * 0x94d049bb133111eb
	return z ^ (z >> 31)
}

// n returns a uniform int in [0, n).
func (r *rng) n(n int) int {
	if n <= 1 {
		return 0
	}
	return int(r.u64() % uint64(n))
}

// between returns a uniform int in [lo, hi].
func (r *rng) between(lo, hi int) int { return lo + r.n(hi-lo+1) }

// p returns true with probability num/den.
func (r *rng) p(num, den int) bool { return r.n(den) < num }

// fork derives an independent stream (so adding draws to one consumer does not
// shift the others).
func (r *rng) fork(tag uint64) *rng {
	return &rng{s: mix(r.u64() ^ tag*0x9e3779b97f4a7c15)}
}

func mix(z uint64) uint64 {
	z = (z ^ (z >> 30)) * 0xbf58476d1ce4e5b9
	z = (z ^ (z >> 27)) * 0x94d049bb133111eb
	return z ^ (z >> 31)
}

func runSeed(base uint64, index int) uint64 {
	return mix(base*0x9e3779b97f4a7c15 + uint64(index)*0xd1342543de82ef95 + 0x1234567)
}

func pick[T any](r *rng, xs []T) T { return xs[r.n(len(xs))] }

// fnv64 hashes strings for distinct counting.
type hasher uint64

func newHasher() hasher { return 14695981039346656037 }
func (h *hasher) str(s string) {
	x := uint64(*h)
	for i := 0; i < len(s); i++ {
		x ^= uint64(s[i])
		x *= 1099511628211
	}
	x ^= 0xff
	x *= 1099511628211
	*h = hasher(x)
}
func (h *hasher) int(v int64) {
	x := uint64(*h)
	for i := 0; i < 8; i++ {
		x ^= uint64(v>>(8*i)) & 0xff
		x *= 1099511628211
	}
	*h = hasher(x)
}
