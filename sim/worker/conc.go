package main

import (
	"bytes"
	"encoding/hex"
	"fmt"
	"os"
	"sort"
	"strings"

	"github.com/coregx/coregex"
	"github.com/coregx/coregex/simrt"
)

// ---- site table -------------------------------------------------------------

type Site struct {
	ID   int    `json:"id"`
	File string `json:"file"`
	Line int    `json:"line"`
	Func string `json:"func"`
	Kind string `json:"kind"`
}

type SiteTable struct {
	Sites []Site // indexed by id (ids below 16 are simrt's own)
	Hot   []bool
}

var hotFuncs = []string{"getSearchState", "putSearchState", "SearchState.reset", "searchStatePool.get", "searchStatePool.put",
	"tryClearCache", "ClearKeepMemory", "nfaFallback", "nfaFallbackReverse", "matchesEmpty", "Insert", "determinize", "BoundedBacktracker.reset",
	"SetLongest", "matchAt", "initState", "ensureInit"}

func (t *SiteTable) fill() {
	t.Hot = make([]bool, len(t.Sites))
	for i := range t.Sites {
		f := t.Sites[i].Func
		for _, h := range hotFuncs {
			if f == h || strings.HasSuffix(f, "."+h) {
				t.Hot[i] = true
			}
		}
		if strings.Contains(f, "Fallback") || strings.Contains(f, "Pool") {
			t.Hot[i] = true
		}
		if t.Sites[i].Kind == "sync" {
			// right before an atomic / pool / lock operation of the library
			t.Hot[i] = true
		}
	}
	if len(t.Hot) > 4 {
		t.Hot[1], t.Hot[2] = true, true // pool Put/Get
		t.Hot[3], t.Hot[4] = true, true // simulated mutex: just acquired / just released
	}
}

func (t *SiteTable) name(id uint32) string {
	if int(id) < len(t.Sites) && t.Sites[id].File != "" {
		s := t.Sites[id]
		return fmt.Sprintf("%s:%d(%s)", s.File, s.Line, s.Func)
	}
	switch id {
	case 1:
		return "simrt.Pool.Put"
	case 2:
		return "simrt.Pool.Get"
	case 3:
		return "simrt.Mutex.Lock(acquired)"
	case 4:
		return "simrt.Mutex.Unlock"
	}
	return fmt.Sprintf("site%d", id)
}

// ---- generation -------------------------------------------------------------

func genConcScenario(seed uint64, index int, tier string) *Scenario {
	r := newRng(seed)
	sc := &Scenario{Engine: "conc", Seed: seed, Index: index}
	pr := r.fork(1)
	sc.Pattern = pickPattern(pr)
	if pr.p(1, 4) {
		sc.Pattern = mutatePattern(pr, sc.Pattern)
	}
	sc.Knobs = genKnobs(r.fork(2), true)
	re := parsePattern(sc.Pattern)
	genASCII = r.fork(9).p(1, 3) // a third of the scenarios: 7-bit haystacks (ASCII-only fast paths)
	alpha := patternAlphabet(sc.Pattern)
	hr := r.fork(3)
	nh := hr.between(1, 4)
	flood := hr.p(1, 8) // every haystack a different near-miss flood: overlapping calls all deep in candidate verification
	for i := 0; i < nh; i++ {
		cl := sizeClass(hr, tier)
		var h []byte
		if flood {
			h = genFlood(hr, re, alpha, 2+cl%2)
		} else {
			h = genHaystack(hr, sc.Pattern, re, alpha, cl)
		}
		sc.Hays = append(sc.Hays, hex.EncodeToString(h))
	}
	if gr := r.fork(12); gr.p(1, 40) && len(sc.Hays) > 0 {
		// one run in forty: the first haystack grown to 33..70 KB by repetition - size
		// thresholds (pooled buffers for large inputs, windowed searches) are only crossed
		// there; scenarios whose reference pass is too expensive are skipped and counted
		if base, err := hex.DecodeString(sc.Hays[0]); err == nil && len(base) > 0 {
			want := gr.between(33000, 70000)
			big := make([]byte, 0, want+len(base))
			for len(big) < want {
				big = append(big, base...)
			}
			sc.Hays[0] = hex.EncodeToString(big)
		}
	}
	or := r.fork(4)
	maxW := 4
	if tier == "thorough" && or.p(1, 6) {
		maxW = 8
	}
	nw := or.between(2, maxW)
	lens := make([]int, nh)
	for i, h := range sc.Hays {
		lens[i] = len(h) / 2
	}
	sameHay := or.p(1, 3)
	sameOp := or.p(1, 6)
	var first Op
	for w := 0; w < nw; w++ {
		n := or.between(1, 6)
		var ops []Op
		for i := 0; i < n; i++ {
			h := or.n(nh)
			if sameHay {
				h = 0
			}
			op := genOp(or, h, lens[h])
			if sameOp {
				if w == 0 && i == 0 {
					first = op
				} else {
					op = first
				}
			}
			ops = append(ops, op)
		}
		sc.Workers = append(sc.Workers, ops)
	}
	if or.p(1, 2) {
		n := or.between(1, 4)
		for i := 0; i < n; i++ {
			h := or.n(nh)
			sc.Warm = append(sc.Warm, genOp(or, h, lens[h]))
		}
	}
	sc.Twin = or.p(1, 6)
	// pool faults
	fr := r.fork(5)
	sc.Pool.Seed = fr.u64()
	switch fr.n(4) {
	case 0: // fault-free
	case 1:
		sc.Pool.DropRate = pick(fr, []uint32{4096, 16384, 65535})
	case 2:
		sc.Pool.MissRate = pick(fr, []uint32{4096, 16384})
		sc.Pool.AnyRate = pick(fr, []uint32{0, 32768})
	case 3:
		sc.Pool.DropRate = pick(fr, []uint32{0, 4096, 16384})
		sc.Pool.MissRate = pick(fr, []uint32{0, 4096, 16384})
		sc.Pool.AnyRate = pick(fr, []uint32{0, 16384, 65535})
	}
	return sc
}

// genSchedule draws the schedule once the reference pass has measured the
// scenario (estimated steps, visited sites).
func genSchedule(sc *Scenario, est int64, visits []uint32, st *SiteTable) {
	r := newRng(sc.Seed).fork(6)
	cfg := simrt.Config{Seed: r.u64(), NumSites: len(st.Sites), CountSite: true}
	cfg.MaxSteps = 30*est + 200000
	nw := len(sc.Workers)
	x := r.n(100)
	switch {
	case x < 40:
		cfg.Policy = simrt.PolRandom
		cfg.Mean = pick(r, []int64{2, 8, 64, 512, 4096})
		sc.PolicyNm = fmt.Sprintf("random/%d", cfg.Mean)
	case x < 65:
		cfg.Policy = simrt.PolPCT
		d := pick(r, []int{1, 2, 3, 5})
		for i := 0; i < d; i++ {
			cfg.Changes = append(cfg.Changes, 1+int64(r.n(int(est)+1)))
		}
		sort.Slice(cfg.Changes, func(i, j int) bool { return cfg.Changes[i] < cfg.Changes[j] })
		perm := make([]int, nw)
		for i := range perm {
			perm[i] = i + 1
		}
		for i := nw - 1; i > 0; i-- {
			j := r.n(i + 1)
			perm[i], perm[j] = perm[j], perm[i]
		}
		cfg.Prio = perm
		sc.PolicyNm = fmt.Sprintf("pct/%d", d)
	case x < 92:
		cfg.Policy = simrt.PolRandom
		// half of the targeted runs park the preempted worker for (practically) the rest of
		// the others' work: "A stands between two atomic operations while B does everything
		// it was going to do" is the shape check-then-act windows need
		cfg.Mean = pick(r, []int64{512, 4096, 1 << 20, 1 << 20})
		// forced preemptions at visited sites, biased to hand-off code and, among that, to
		// the statements that perform a synchronisation operation themselves
		var hot, syncSites, any []uint32
		for id, v := range visits {
			if v == 0 {
				continue
			}
			any = append(any, uint32(id))
			if id < len(st.Hot) && st.Hot[id] {
				hot = append(hot, uint32(id))
				if id < len(st.Sites) && st.Sites[id].Kind == "sync" {
					syncSites = append(syncSites, uint32(id))
				}
			}
		}
		k := r.between(1, 3)
		for i := 0; i < k && len(any) > 0; i++ {
			var s uint32
			x := r.n(10)
			switch {
			case x < 4 && len(syncSites) > 0:
				s = pick(r, syncSites)
			case x < 7 && len(hot) > 0:
				s = pick(r, hot)
			default:
				s = pick(r, any)
			}
			v := visits[s]
			// the concurrent phase visits a site roughly as often as the reference pass did
			cfg.Preempts = append(cfg.Preempts, simrt.Preempt{Site: s, Visit: 1 + uint32(r.n(int(v))), To: -1})
		}
		sc.PolicyNm = "targeted"
	default:
		cfg.Policy = simrt.PolSerial
		sc.PolicyNm = "serial"
	}
	sc.Sched = cfg
}

// ---- execution --------------------------------------------------------------

type Mismatch struct {
	Worker   int    `json:"worker"`
	OpIndex  int    `json:"op_index"`
	Op       Op     `json:"op"`
	Got      string `json:"got"`
	Want     string `json:"want"`
	FreshRes string `json:"fresh"`
}

type Outcome struct {
	Class           string     `json:"class"` // "" ok, race, result, history, input_modified, ownership, compile
	Detail          string     `json:"detail,omitempty"`
	Mismatches      []Mismatch `json:"mismatches,omitempty"`
	RaceText        string     `json:"race_text,omitempty"`
	Races           []RaceSig  `json:"races,omitempty"`
	Steps           int64      `json:"steps"`
	Switches        int        `json:"switches"`
	Preempts        int        `json:"preempts"` // switches that were not caused by a worker finishing
	Forced          int        `json:"forced_fired"`
	OverBudget      bool       `json:"over_budget,omitempty"`
	Pool            simrt.PoolStats
	Strategy        string
	SchedHash       uint64
	Visits          []uint32 `json:"-"`
	EstSteps        int64
	LogHash         uint64   // hash of everything observable about the run (determinism self-test)
	HistFuncs       []string `json:"history_funcs,omitempty"` // cache-full handling functions entered in the reference pass or the concurrent phase
	Diverged        int      // mismatches explained by a pure engine/configuration divergence
	PrefilterMisses bool     `json:"prefilter_misses_match,omitempty"` // see history.go prefilterMissesMatch
}

func trunc(s string, n int) string {
	if len(s) > n {
		return s[:n] + "…"
	}
	return s
}

// maxRefSteps bounds the cost of one simulated run (steps of the sequential
// reference pass); thorough runs allow more.
var maxRefSteps int64 = 1500000

// runConc executes one scenario. If sc.Sched.NumSites == 0 the schedule has not
// been drawn yet (generation mode) and is drawn after the reference pass.
func runConc(sc *Scenario, st *SiteTable, raceLog *raceLogReader) *Outcome {
	out := &Outcome{}
	hb, hs := sc.hays()
	orig := make([][]byte, len(hb))
	for i := range hb {
		orig[i] = append([]byte(nil), hb[i]...)
	}
	simrt.PoolEpoch(simrt.PoolConfig{})

	// 1. reference pass: every operation alone, in order, on a reference value.
	ref, err := compile(sc.Pattern, sc.Knobs)
	if err != nil {
		out.Class = "compile"
		out.Detail = err.Error()
		return out
	}
	out.Strategy = ref.VerifEngine().Strategy().String()
	want := make([][]string, len(sc.Workers))
	// the reference pass has a step budget too: the scheduler panics inside a call once
	// 50 x MaxSteps (= 2 x maxRefSteps) steps are used up, execOp recovers it, the remaining
	// calls end at their first yield, and the scenario is skipped as too expensive below - a
	// quadratic path on a 70 KB haystack must cost seconds, not the shard
	refRes := simrt.Run(simrt.Config{Policy: simrt.PolSerial, NumSites: len(st.Sites), CountSite: true, MaxSteps: maxRefSteps/25 + 1}, []func(){func() {
		for w, ops := range sc.Workers {
			want[w] = make([]string, len(ops))
			for i := range ops {
				want[w][i] = execOp(ref, &ops[i], hb, hs)
			}
		}
	}})
	out.EstSteps = refRes.Steps
	if refRes.Steps > maxRefSteps && sc.Sched.NumSites == 0 {
		// too expensive for the race-instrumented build (a quadratic path on a long
		// haystack): skipped and counted, not silently dropped
		out.Class = "skipped"
		return out
	}
	if sc.Sched.NumSites == 0 {
		genSchedule(sc, refRes.Steps, refRes.SiteVisits, st)
	}

	// 2. the shared value(s), optionally warmed up sequentially.
	re1, err := compile(sc.Pattern, sc.Knobs)
	if err != nil {
		out.Class = "compile"
		return out
	}
	res := []*coregex.Regex{re1, re1}
	if sc.Twin {
		re2, _ := compile(sc.Pattern, sc.Knobs)
		res[1] = re2
	}
	if len(sc.Warm) > 0 {
		// the warm-up runs under the simulator too (one worker, no preemption) so that the
		// step budget applies: a call that never returns is a finding, not a hung shard
		var warmRes []string
		simrt.Run(simrt.Config{Policy: simrt.PolSerial, NumSites: len(st.Sites), MaxSteps: maxRefSteps/25 + 1}, []func(){func() {
			for i := range sc.Warm {
				warmRes = append(warmRes, execOp(re1, &sc.Warm[i], hb, hs))
			}
		}})
		for i, r := range warmRes {
			if strings.Contains(r, "step budget exceeded") {
				// a warm-up call may legitimately cost far more than the reference pass (other
				// calls, other haystacks; quadratic paths are C05's business): the scenario is too
				// expensive, skipped and counted - an absolute budget cannot tell "slow" from
				// "never returns", so no verdict is drawn from it (a first version reported
				// `completion` here and raised a false alarm on (?m)^(?:\d\d:\d\d)$ / 13 KB)
				_ = i
				out.Class = "skipped"
				return out
			}
		}
		if own := ownershipViolations(re1); len(own) > 0 {
			out.Class = "ownership"
			out.Detail = "after the sequential warm-up: " + own[0]
			return out
		}
	}

	// 3. concurrent phase under the simulated scheduler and pool.
	got := make([][]string, len(sc.Workers))
	fns := make([]func(), len(sc.Workers))
	for w := range sc.Workers {
		w := w
		got[w] = make([]string, len(sc.Workers[w]))
		fns[w] = func() {
			re := res[w%2]
			for i := range sc.Workers[w] {
				got[w][i] = execOp(re, &sc.Workers[w][i], hb, hs)
			}
		}
	}
	simrt.PoolPhase(sc.Pool)
	racesBefore := simrt.RaceErrors()
	if raceLog != nil {
		raceLog.mark()
	}
	sres := simrt.Run(sc.Sched, fns)
	simrt.PoolSetFaults(0, 0, 0)
	out.Steps, out.Switches, out.Forced, out.OverBudget = sres.Steps, sres.Switches, sres.ForcedFired, sres.OverBudget
	out.Visits = sres.SiteVisits
	pst, ptape := simrt.PoolReport()
	out.Pool = pst
	for _, s := range sres.Tape {
		if !s.F {
			out.Preempts++
		}
	}
	// what actually happened becomes the replayable description
	sc.Sched = simrt.Config{Policy: simrt.PolReplay, Tape: sres.Tape, MaxSteps: sc.Sched.MaxSteps, NumSites: len(st.Sites), CountSite: true}
	sc.Pool = simrt.PoolConfig{Replay: true, Tape: ptape}
	h := newHasher()
	for _, s := range sres.Tape {
		h.int(int64(s.W))
		h.int(s.N)
	}
	out.SchedHash = uint64(h)

	// 4. oracles
	lh := newHasher()
	lh.int(int64(out.SchedHash))
	lh.int(out.Steps)
	for _, d := range ptape {
		lh.int(int64(d))
	}
	for w := range got {
		for i := range got[w] {
			lh.str(got[w][i])
		}
	}
	for _, site := range sres.SwitchSites {
		lh.int(int64(site))
	}
	out.LogHash = uint64(lh)

	if n := simrt.RaceErrors() - racesBefore; n > 0 {
		out.Class = "race"
		out.Detail = fmt.Sprintf("%d race report(s) during the concurrent phase", n)
		if raceLog != nil {
			out.RaceText = raceLog.since()
			out.Races = parseRaces(out.RaceText)
		}
	}
	if own := ownershipViolations(res[0], res[1]); len(own) > 0 && out.Class == "" {
		out.Class = "ownership"
		out.Detail = own[0]
	}
	for i := range hb {
		if !bytes.Equal(hb[i], orig[i]) || hs[i] != string(orig[i]) {
			out.Class = "input_modified"
			out.Detail = fmt.Sprintf("haystack %d changed during the run", i)
		}
	}
	if globalSites != nil && len(globalSites.Sites) > 16 {
		seen := map[string]bool{}
		for _, vis := range [][]uint32{refRes.SiteVisits, sres.SiteVisits} {
			for _, f := range visitedFuncs(vis) {
				for _, w := range cacheFullFuncs {
					if f == w {
						seen[f] = true
					}
				}
			}
		}
		for f := range seen {
			out.HistFuncs = append(out.HistFuncs, f)
		}
		sortStrings(out.HistFuncs)
	}
	for w := range got {
		for i := range got[w] {
			if got[w][i] != want[w][i] {
				// confirm against a fresh value used for this one call only
				fresh, _ := compile(sc.Pattern, sc.Knobs)
				fr := execOp(fresh, &sc.Workers[w][i], hb, hs)
				if got[w][i] == fr && concDivergence(sc, &sc.Workers[w][i], hb, hs, want[w][i]) {
					// the (sequentially aged) reference value answered like a fresh value under
					// another configuration: pure engine divergence, nobody's state is corrupted
					out.Diverged++
					continue
				}
				if got[w][i] == fr {
					// the reference value drifted, not the concurrent one: history dependence
					if prefilterMissesMatch(sc.Pattern, sc.Knobs, hb[sc.Workers[w][i].H]) {
						out.PrefilterMisses = true
					}
					out.Mismatches = append(out.Mismatches, Mismatch{w, i, sc.Workers[w][i], trunc(got[w][i], 300), trunc(want[w][i], 300), trunc(fr, 300)})
					if out.Class == "" {
						out.Class = "history"
						out.Detail = "reference value (sequential) differs from a fresh value"
					}
					continue
				}
				if concDivergence(sc, &sc.Workers[w][i], hb, hs, got[w][i]) {
					// the answer is what a fresh value gives under another valid configuration
					// (NFA only / default): a pure divergence between engines, not interference
					out.Diverged++
					continue
				}
				if prefilterMissesMatch(sc.Pattern, sc.Knobs, hb[sc.Workers[w][i].H]) {
					out.PrefilterMisses = true
				}
				out.Mismatches = append(out.Mismatches, Mismatch{w, i, sc.Workers[w][i], trunc(got[w][i], 300), trunc(want[w][i], 300), trunc(fr, 300)})
				if out.Class == "" || out.Class == "history" {
					out.Class = "result"
					out.Detail = "call returned a different result than when executed alone"
				}
			}
		}
	}
	return out
}

// concDivergence: see engineDivergence in history.go.
func concDivergence(sc *Scenario, op *Op, hb [][]byte, hs []string, got string) bool {
	var refs []string
	for _, k := range []Knobs{{NoDFA: true, NoPrefilter: true}, {}} {
		k.Longest = sc.Knobs.Longest
		ref, err := compile(sc.Pattern, k)
		if err != nil {
			continue
		}
		r := execOp(ref, op, hb, hs)
		if r == got {
			return true
		}
		refs = append(refs, r)
	}
	return len(refs) == 2 && refs[0] != refs[1]
}

// serialRecheck replays the same operations with no preemption and a fault-free
// pool; if the mismatch persists it is history dependence (C13), not C06.
func serialRecheck(sc *Scenario, st *SiteTable) bool {
	c := *sc
	c.Sched = simrt.Config{Policy: simrt.PolSerial, NumSites: len(st.Sites), MaxSteps: sc.Sched.MaxSteps}
	c.Pool = simrt.PoolConfig{}
	o := runConc(&c, st, nil)
	return o.Class == "result" || o.Class == "history"
}

// ---- race log ---------------------------------------------------------------

type raceLogReader struct {
	path string
	off  int64
}

func newRaceLogReader() *raceLogReader {
	// GORACE log_path=<prefix> makes the runtime write to <prefix>.<pid>
	for _, f := range strings.Fields(os.Getenv("GORACE")) {
		if strings.HasPrefix(f, "log_path=") {
			return &raceLogReader{path: fmt.Sprintf("%s.%d", strings.TrimPrefix(f, "log_path="), os.Getpid())}
		}
	}
	return nil
}

func (r *raceLogReader) mark() {
	if fi, err := os.Stat(r.path); err == nil {
		r.off = fi.Size()
	}
}

func (r *raceLogReader) since() string {
	b, err := os.ReadFile(r.path)
	if err != nil || int64(len(b)) <= r.off {
		return ""
	}
	return string(b[r.off:])
}

// RaceSig identifies a race by the innermost library frames of its two accesses.
type RaceSig struct {
	A      string   `json:"a"` // innermost coregex function of one access
	B      string   `json:"b"` // innermost coregex function of the other access
	StackA []string `json:"stack_a"`
	StackB []string `json:"stack_b"`
}

func (s RaceSig) Key() string { return s.A + " <-> " + s.B }

func parseRaces(text string) []RaceSig {
	var sigs []RaceSig
	for _, blk := range strings.Split(text, "WARNING: DATA RACE")[1:] {
		lines := strings.Split(blk, "\n")
		var stacks [][]string
		var cur []string
		in := false
		for _, ln := range lines {
			t := strings.TrimSpace(ln)
			switch {
			case strings.HasPrefix(t, "Read at ") || strings.HasPrefix(t, "Write at ") || strings.HasPrefix(t, "Previous read at ") || strings.HasPrefix(t, "Previous write at ") ||
				strings.HasPrefix(t, "Atomic ") || strings.HasPrefix(t, "Previous atomic "):
				if in {
					stacks = append(stacks, cur)
				}
				cur, in = nil, true
			case strings.HasPrefix(t, "Goroutine ") || strings.HasPrefix(t, "=========="):
				if in {
					stacks = append(stacks, cur)
				}
				cur, in = nil, false
			case in && t != "" && !strings.HasPrefix(t, "/") && strings.HasSuffix(t, ")"):
				cur = append(cur, t)
			}
		}
		if in {
			stacks = append(stacks, cur)
		}
		if len(stacks) < 2 {
			continue
		}
		sig := RaceSig{StackA: libFrames(stacks[0]), StackB: libFrames(stacks[1])}
		sig.A, sig.B = top(sig.StackA), top(sig.StackB)
		if sig.B < sig.A {
			sig.A, sig.B = sig.B, sig.A
			sig.StackA, sig.StackB = sig.StackB, sig.StackA
		}
		sigs = append(sigs, sig)
	}
	return sigs
}

func libFrames(fr []string) []string {
	var out []string
	for _, f := range fr {
		if i := strings.Index(f, "github.com/coregx/coregex"); i >= 0 && !strings.Contains(f, "/simrt.") {
			f = strings.TrimPrefix(f[i:], "github.com/coregx/coregex")
			f = strings.TrimPrefix(f, "/")
			if j := strings.LastIndex(f, "("); j > 0 && strings.HasSuffix(f, ")") {
				f = f[:j]
			}
			out = append(out, f)
			if len(out) >= 6 {
				break
			}
		}
	}
	return out
}

func top(fr []string) string {
	if len(fr) == 0 {
		return "?"
	}
	return fr[0]
}
