package main

import (
	"fmt"
	"reflect"
	"unsafe"

	"github.com/coregx/coregex"
	"github.com/coregx/coregex/simrt"
)

// Exclusive ownership at quiescence. When no call is in flight, every piece of mutable
// per-search state (a SearchState, a lazy-DFA cache, a backtracker state, a PikeVM
// instance, a one-pass cache, a slot table) must be reachable from exactly one hand-out
// point: one value's single-slot cache, or one entry of one pool. An object reachable from
// two of them - put twice, kept after being put, or stored into a pool while another owner
// still points at it - will be handed to two callers sooner or later; the next two
// overlapping calls then share it whether or not this run's schedule made them collide.
// This is the conservation side of C06: it needs no unlucky interleaving to fire.

var ownedTypes = map[string]bool{
	"meta.SearchState": true, "lazy.DFACache": true, "nfa.BacktrackerState": true, "nfa.PikeVM": true,
	"nfa.PikeVMState": true, "onepass.Cache": true, "nfa.SlotTable": true,
}

type ownWalker struct {
	seen  map[unsafe.Pointer]bool
	found map[unsafe.Pointer]string
}

func (o *ownWalker) walk(v reflect.Value, depth int) {
	if !v.IsValid() || depth > 60 {
		return
	}
	switch v.Kind() {
	case reflect.Ptr:
		if v.IsNil() {
			return
		}
		p := v.UnsafePointer()
		if o.seen[p] {
			return
		}
		o.seen[p] = true
		tn := v.Type().Elem().String()
		if ownedTypes[tn] {
			o.found[p] = tn
		} else if depth > 0 && !hasOwnedInside(v.Type().Elem()) {
			return // immutable compiled data (NFA, DFA, prefilters): shared by design
		}
		o.walk(v.Elem(), depth+1)
	case reflect.Interface:
		if !v.IsNil() {
			o.walk(v.Elem(), depth+1)
		}
	case reflect.Struct:
		if t := v.Type(); t.PkgPath() == "sync/atomic" || t.String() == "simrt.Pool" {
			return // hand-out points of their own: their content is enumerated as roots
		}
		for i := 0; i < v.NumField(); i++ {
			o.walk(v.Field(i), depth+1)
		}
	case reflect.Slice, reflect.Array:
		if v.Kind() == reflect.Slice && v.IsNil() {
			return
		}
		if hasPointers(v.Type().Elem()) {
			for i := 0; i < v.Len(); i++ {
				o.walk(v.Index(i), depth+1)
			}
		}
	}
}

var ownedInsideCache = map[reflect.Type]bool{}

// hasOwnedInside reports whether a value of type t can (transitively) point to an owned type.
func hasOwnedInside(t reflect.Type) bool {
	if r, ok := ownedInsideCache[t]; ok {
		return r
	}
	ownedInsideCache[t] = false
	res := false
	switch t.Kind() {
	case reflect.Ptr:
		res = ownedTypes[t.Elem().String()] || hasOwnedInside(t.Elem())
	case reflect.Interface:
		res = true // unknown dynamic type: look
	case reflect.Slice, reflect.Array:
		res = hasOwnedInside(t.Elem())
	case reflect.Struct:
		if t.PkgPath() == "sync/atomic" || t.String() == "simrt.Pool" {
			break
		}
		for i := 0; i < t.NumField(); i++ {
			if hasOwnedInside(t.Field(i).Type) {
				res = true
			}
		}
	}
	ownedInsideCache[t] = res
	return res
}

// ownershipViolations checks the invariant for the given values and every pool touched in
// the current epoch. Call only when no call is in flight.
func ownershipViolations(values ...*coregex.Regex) []string {
	type root struct {
		name string
		v    reflect.Value
	}
	var roots []root
	seenVal := map[*coregex.Regex]bool{}
	for i, re := range values {
		if re == nil || seenVal[re] {
			continue
		}
		seenVal[re] = true
		if st := re.VerifEngine().VerifLocalState(); st != nil {
			roots = append(roots, root{fmt.Sprintf("slot of value %d", i), reflect.ValueOf(st)})
		}
	}
	for pi, p := range simrt.Pools() {
		for ii, it := range p.Items() {
			if it != nil {
				roots = append(roots, root{fmt.Sprintf("pool %d entry %d (%T)", pi, ii, it), reflect.ValueOf(it)})
			}
		}
	}
	owner := map[unsafe.Pointer]string{}
	var out []string
	for _, r := range roots {
		w := &ownWalker{seen: map[unsafe.Pointer]bool{}, found: map[unsafe.Pointer]string{}}
		w.walk(r.v, 0)
		for p, tn := range w.found {
			if prev, ok := owner[p]; ok {
				if len(out) < 4 {
					out = append(out, fmt.Sprintf("one %s is reachable from %s and from %s while no call is in flight", tn, prev, r.name))
				}
			} else {
				owner[p] = r.name
			}
		}
	}
	return out
}
