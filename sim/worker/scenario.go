package main

import (
	"encoding/hex"
	"fmt"
	"regexp/syntax"

	"github.com/coregx/coregex"
	"github.com/coregx/coregex/simrt"
)

// Knobs are the configuration choices of one run. Zero values mean "library default".
type Knobs struct {
	NoDFA       bool `json:"no_dfa,omitempty"`
	NoPrefilter bool `json:"no_prefilter,omitempty"`
	MaxLiterals int  `json:"max_literals,omitempty"`
	MinLitLen   int  `json:"min_lit_len,omitempty"`
	DetLimit    int  `json:"det_limit,omitempty"`
	NoASCII     bool `json:"no_ascii,omitempty"`
	DFACap      int  `json:"dfa_cap,omitempty"`    // lazy DFA cache capacity in bytes (hook)
	MaxClears   int  `json:"max_clears,omitempty"` // -1..: value+1 stored so that 0 = default
	MaxVisited  int  `json:"max_visited,omitempty"`
	Longest     bool `json:"longest,omitempty"`
}

func (k Knobs) hooked() bool { return k.DFACap != 0 || k.MaxClears != 0 || k.MaxVisited != 0 }

func genKnobs(r *rng, allowHooks bool) Knobs {
	var k Knobs
	if r.p(1, 2) {
		// half of the runs: pure defaults (+ maybe mode)
		k.Longest = r.p(1, 5)
		if allowHooks && r.p(1, 2) {
			k.DFACap = pick(r, []int{200, 400, 700, 1200, 2500, 6000, 20000, 65536, 262144})
			k.MaxClears = 1 + pick(r, []int{0, 1, 2, 5, 5})
		}
		return k
	}
	k.NoDFA = r.p(1, 8)
	k.NoPrefilter = r.p(1, 8)
	k.MaxLiterals = pick(r, []int{0, 0, 1, 4, 64})
	k.MinLitLen = pick(r, []int{0, 0, 2, 3})
	k.DetLimit = pick(r, []int{0, 0, 10, 50})
	k.NoASCII = r.p(1, 4)
	k.Longest = r.p(1, 4)
	if allowHooks {
		if r.p(1, 2) {
			k.DFACap = pick(r, []int{200, 400, 700, 1200, 2500, 6000, 20000, 65536, 262144})
		}
		if r.p(1, 2) {
			k.MaxClears = 1 + pick(r, []int{0, 1, 2, 5})
		}
		if r.p(1, 3) {
			k.MaxVisited = pick(r, []int{64, 256, 1024, 8192, 65536})
		}
	}
	return k
}

// compile builds a Regex with the given knobs. The hook-only knobs are applied
// right after compilation, before any search state exists.
func compile(pattern string, k Knobs) (*coregex.Regex, error) {
	cfg := coregex.DefaultConfig()
	cfg.EnableDFA = !k.NoDFA
	cfg.EnablePrefilter = !k.NoPrefilter
	if k.MaxLiterals != 0 {
		cfg.MaxLiterals = k.MaxLiterals
	}
	if k.MinLitLen != 0 {
		cfg.MinLiteralLen = k.MinLitLen
	}
	if k.DetLimit != 0 {
		cfg.DeterminizationLimit = k.DetLimit
	}
	cfg.EnableASCIIOptimization = !k.NoASCII
	re, err := coregex.CompileWithConfig(pattern, cfg)
	if err != nil {
		return nil, err
	}
	eng := re.VerifEngine()
	if k.DFACap != 0 || k.MaxClears != 0 {
		eng.VerifSetDFACache(k.DFACap, k.MaxClears-1)
	}
	if k.MaxVisited != 0 {
		for _, bt := range eng.VerifBacktrackers() {
			bt.VerifSetMaxVisited(k.MaxVisited)
		}
	}
	if k.Longest {
		re.Longest()
	}
	return re, nil
}

// Scenario is a complete, explicit description of one simulated concurrent run.
type Scenario struct {
	Engine   string           `json:"engine"`
	Seed     uint64           `json:"seed"`
	Index    int              `json:"index"`
	Pattern  string           `json:"pattern"`
	Knobs    Knobs            `json:"knobs"`
	Hays     []string         `json:"hays_hex"`
	Warm     []Op             `json:"warm,omitempty"`
	Workers  [][]Op           `json:"workers"`
	Twin     bool             `json:"twin,omitempty"` // odd workers use a second value compiled from the same pattern
	Sched    simrt.Config     `json:"sched"`
	Pool     simrt.PoolConfig `json:"pool"`
	PolicyNm string           `json:"policy_name"`
}

func (sc *Scenario) hays() ([][]byte, []string) {
	hb := make([][]byte, len(sc.Hays))
	hs := make([]string, len(sc.Hays))
	for i, h := range sc.Hays {
		b, err := hex.DecodeString(h)
		if err != nil {
			panic(fmt.Sprintf("bad haystack hex in scenario: %v", err))
		}
		hb[i] = b
		hs[i] = string(b)
	}
	return hb, hs
}

func parsePattern(p string) *syntax.Regexp {
	re, err := syntax.Parse(p, syntax.Perl)
	if err != nil {
		return nil
	}
	return re
}

// sizeClass draws a haystack size class; long ones are rare because the
// race-instrumented build pays per executed block.
func sizeClass(r *rng, tier string) int {
	x := r.n(100)
	switch {
	case x < 12:
		return 0
	case x < 50:
		return 1
	case x < 86:
		return 2
	case x < 99 || tier != "thorough":
		return 3
	}
	return 4
}
