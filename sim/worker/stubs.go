package main

import "github.com/coregx/coregex/dfa/lazy"

type lazyInfo = lazy.VerifCacheInfo
