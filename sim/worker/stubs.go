package main

import "time"

func replayHistory(string, func(any)) int   { return 2 }
func minimizeHistory(string, func(any)) int { return 2 }
func historyBatch(string, uint64, int, int, string, bool, time.Duration, time.Time, func(any)) {}
func replayStream(string, func(any)) int    { return 2 }
func streamBatch(string, uint64, int, int, string, time.Duration, time.Time, func(any))       {}
