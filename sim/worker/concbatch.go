package main

import (
	"encoding/json"
	"fmt"
	"os"
	"time"
)

var probeFuncs = []string{"tryClearCache", "ClearKeepMemory", "nfaFallback", "nfaFallbackReverse", "searchStatePool.get", "searchStatePool.put", "newSearchState"}

func concBatch(base uint64, from, to int, tier string, st *SiteTable, logHashes bool, budget time.Duration, start time.Time, emit func(any)) {
	sum := &Summary{Kind: "summary", Engine: "conc", From: from, To: to, Failures: map[string]int{}, Policies: map[string]int{}, Strategies: map[string]int{},
		Cells: map[string]int{}, Knobs: map[string]int{}, Probes: map[string]int64{}, SitesTotal: len(st.Sites) - 16, FuncRuns: map[string]int{}}
	if logHashes {
		sum.LogHashes = map[int]uint64{}
	}
	if tier == "thorough" {
		maxRefSteps = 6000000
	}
	rl := newRaceLogReader()
	siteAgg := make([]uint64, len(st.Sites))
	preemptSites := map[uint32]bool{}
	for i := from; i < to; i++ {
		if budget > 0 && time.Since(start) > budget {
			sum.To = i
			break
		}
		seed := runSeed(base, i)
		sc := genConcScenario(seed, i, tier)
		gen := *sc // keep the generated description for samples
		out := runConc(sc, st, rl)
		if out.Class == "compile" {
			continue
		}
		if out.Class == "skipped" {
			sum.Knobs["skipped_too_expensive"]++
			continue
		}
		sum.Runs++
		sum.Steps += out.Steps
		sum.Switches += int64(out.Switches)
		sum.Preempts += int64(out.Preempts)
		sum.Forced += int64(out.Forced)
		if out.OverBudget {
			sum.OverBudget++
		}
		sum.Probes["mismatches_attributed_to_pure_engine_divergence"] += int64(out.Diverged)
		sum.Policies[sc.PolicyNm]++
		sum.Strategies[out.Strategy]++
		for _, ops := range sc.Workers {
			for _, op := range ops {
				sum.Cells[out.Strategy+"|"+op.API]++
			}
		}
		sum.PoolGets += int64(out.Pool.Gets)
		sum.PoolPuts += int64(out.Pool.Puts)
		sum.PoolNews += int64(out.Pool.News)
		sum.PoolDrops += int64(out.Pool.Drops)
		sum.PoolMisses += int64(out.Pool.Misses)
		sum.PoolReorder += int64(out.Pool.Reorders)
		if sc.Knobs.hooked() {
			sum.Knobs["hooked_capacity"]++
		}
		if sc.Knobs.Longest {
			sum.Knobs["longest"]++
		}
		if sc.Knobs.NoDFA {
			sum.Knobs["no_dfa"]++
		}
		if sc.Knobs.NoPrefilter {
			sum.Knobs["no_prefilter"]++
		}
		if sc.Twin {
			sum.Knobs["twin_values"]++
		}
		if len(sc.Warm) > 0 {
			sum.Knobs["warmed"]++
		}
		for id, v := range out.Visits {
			siteAgg[id] += uint64(v)
			if v > 0 && id >= 16 && id < len(st.Sites) && st.Sites[id].Kind == "func" {
				sum.FuncRuns[st.Sites[id].File+":"+st.Sites[id].Func]++
			}
		}
		if out.Preempts > 0 {
			h := newHasher()
			h.str(sc.Pattern)
			b, _ := json.Marshal(sc.Knobs)
			h.str(string(b))
			b, _ = json.Marshal(sc.Workers)
			h.str(string(b))
			h.int(int64(out.SchedHash))
			sum.Nontrivial = append(sum.Nontrivial, uint64(h))
		}
		if logHashes {
			sum.LogHashes[i] = out.LogHash
		}
		if len(sum.Samples) < 2 && out.Preempts > 0 {
			tape := sc.Sched.Tape
			if len(tape) > 40 {
				tape = tape[:40]
			}
			sum.Samples = append(sum.Samples, map[string]any{"index": i, "seed": seed, "pattern": sc.Pattern, "knobs": sc.Knobs, "strategy": out.Strategy,
				"policy": sc.PolicyNm, "workers": sc.Workers, "haystack_lens": hayLens(sc), "schedule_first_40": tape, "steps": out.Steps, "switches": out.Switches,
				"pool": out.Pool, "pool_plan": gen.Pool})
		}
		if out.Class != "" {
			sum.Failures[out.Class]++
			if out.Class == "result" {
				if serialRecheck(&gen, st) {
					out.Detail += " (persists without interleaving: history dependence)"
					out.Class = "history"
					sum.Failures["result"]--
					sum.Failures["history"]++
				}
			}
			emit(FailLine{Kind: "failure", Engine: "conc", Index: i, Seed: seed, Outcome: out, Scenario: sc})
		}
	}
	for id, v := range siteAgg {
		if v > 0 && id >= 16 {
			sum.SitesHit++
		}
		if v > 0 && id < len(st.Sites) {
			f := st.Sites[id].Func
			for _, pf := range probeFuncs {
				if st.Sites[id].Kind == "func" && (f == pf || hasSuffixDot(f, pf)) {
					sum.Probes[pf] += int64(v)
				}
			}
		}
	}
	_ = preemptSites
	sum.WallS = time.Since(start).Seconds()
	emit(sum)
}

func hasSuffixDot(f, s string) bool {
	return len(f) > len(s) && f[len(f)-len(s)-1] == '.' && f[len(f)-len(s):] == s
}

func hayLens(sc *Scenario) []int {
	var l []int
	for _, h := range sc.Hays {
		l = append(l, len(h)/2)
	}
	return l
}

func loadScenario(path string) (*Scenario, error) {
	b, err := os.ReadFile(path)
	if err != nil {
		return nil, err
	}
	var rf struct {
		Scenario *Scenario `json:"scenario"`
	}
	if err := json.Unmarshal(b, &rf); err != nil {
		return nil, err
	}
	if rf.Scenario == nil {
		return nil, fmt.Errorf("no scenario in %s", path)
	}
	return rf.Scenario, nil
}

// replayConc re-executes a recorded scenario and prints its outcome.
// Exit code: 0 no failure reproduced, 1 failure reproduced, 2 trouble.
func replayConc(path string, st *SiteTable, emit func(any)) int {
	sc, err := loadScenario(path)
	if err != nil {
		fmt.Fprintln(os.Stderr, err)
		return 2
	}
	out := runConc(sc, st, newRaceLogReader())
	emit(FailLine{Kind: "replay", Engine: "conc", Index: sc.Index, Seed: sc.Seed, Outcome: out, Scenario: sc})
	if out.Class != "" {
		return 1
	}
	return 0
}

func minimizeConc(path string, st *SiteTable, emit func(any)) int {
	sc, err := loadScenario(path)
	if err != nil {
		fmt.Fprintln(os.Stderr, err)
		return 2
	}
	rl := newRaceLogReader()
	first := runConc(cloneScenario(sc), st, rl)
	if first.Class == "" {
		emit(FailLine{Kind: "minimized", Engine: "conc", Index: sc.Index, Seed: sc.Seed, Outcome: first, Scenario: sc})
		return 0
	}
	key := failKey(first)
	same := func(c *Scenario) (*Outcome, bool) {
		o := runConc(c, st, rl)
		return o, o.Class == first.Class && failKey(o) == key
	}
	best := cloneScenario(sc)
	deadline := time.Now().Add(60 * time.Second)
	try := func(c *Scenario) bool {
		if time.Now().After(deadline) {
			return false
		}
		probe := cloneScenario(c)
		if _, ok := same(probe); ok {
			best = probe // probe now carries the schedule and pool tape actually followed
			return true
		}
		return false
	}
	changed := true
	for changed && time.Now().Before(deadline) {
		changed = false
		// drop warm-up
		if len(best.Warm) > 0 {
			c := cloneScenario(best)
			c.Warm = nil
			if try(c) {
				changed = true
			}
		}
		if best.Twin {
			c := cloneScenario(best)
			c.Twin = false
			if try(c) {
				changed = true
			}
		}
		// fault-free pool
		if len(best.Pool.Tape) > 0 {
			c := cloneScenario(best)
			c.Pool.Tape = nil
			if try(c) {
				changed = true
			}
		}
		// drop operations (keep at least one per worker; emptied workers stay as no-ops)
		for w := range best.Workers {
			for i := len(best.Workers[w]) - 1; i >= 0; i-- {
				if len(best.Workers[w]) == 0 {
					break
				}
				c := cloneScenario(best)
				c.Workers[w] = append(append([]Op(nil), c.Workers[w][:i]...), c.Workers[w][i+1:]...)
				if try(c) {
					changed = true
				}
			}
		}
		// merge schedule segments (fewer context switches)
		for i := 0; i+1 < len(best.Sched.Tape); i++ {
			c := cloneScenario(best)
			t := c.Sched.Tape
			c.Sched.Tape = append(append(t[:0:0], t[:i]...), t[i+1:]...)
			if try(c) {
				changed = true
				i--
			}
		}
		// knobs towards defaults
		for k := 0; k < 10; k++ {
			c := cloneScenario(best)
			kn := &c.Knobs
			before := *kn
			switch k {
			case 0:
				kn.NoDFA = false
			case 1:
				kn.NoPrefilter = false
			case 2:
				kn.MaxLiterals = 0
			case 3:
				kn.MinLitLen = 0
			case 4:
				kn.DetLimit = 0
			case 5:
				kn.NoASCII = false
			case 6:
				kn.DFACap = 0
			case 7:
				kn.MaxClears = 0
			case 8:
				kn.MaxVisited = 0
			case 9:
				kn.Longest = false
			}
			if *kn != before && try(c) {
				changed = true
			}
		}
		// shorten haystacks (halve from either end)
		for h := range best.Hays {
			for _, side := range []int{0, 1} {
				n := len(best.Hays[h]) / 2
				if n < 2 {
					continue
				}
				c := cloneScenario(best)
				cut := (n / 2) * 2
				if side == 0 {
					c.Hays[h] = c.Hays[h][:cut]
				} else {
					c.Hays[h] = c.Hays[h][len(c.Hays[h])-cut:]
				}
				if try(c) {
					changed = true
				}
			}
		}
	}
	final := runConc(best, st, rl)
	if final.Class == "result" {
		pre := 0
		for _, sg := range best.Sched.Tape {
			if !sg.F {
				pre++
			}
		}
		if pre == 0 {
			// the minimal failing execution has no preemption at all: the calls ran one
			// after another, so the difference is history dependence (C13), not C06
			final.Class = "history"
			final.Detail += " (minimal failing schedule has no preemption: sequential history dependence)"
		}
	}
	emit(FailLine{Kind: "minimized", Engine: "conc", Index: sc.Index, Seed: sc.Seed, Outcome: final, Scenario: best})
	if final.Class == "" {
		return 2
	}
	return 1
}

func failKey(o *Outcome) string {
	if o.Class == "race" && len(o.Races) > 0 {
		return o.Races[0].Key()
	}
	return o.Class
}

func cloneScenario(sc *Scenario) *Scenario {
	b, _ := json.Marshal(sc)
	var c Scenario
	json.Unmarshal(b, &c)
	return &c
}
