package main

import (
	"bytes"
	"encoding/hex"
	"encoding/json"
	"fmt"
	"os"
	"runtime"
	"sort"
	"strings"
	"time"

	"github.com/coregx/coregex"
	"github.com/coregx/coregex/meta"
	"github.com/coregx/coregex/nfa"
	"github.com/coregx/coregex/simrt"
)

// The alloc engine decides the remaining clauses of C20 on seeded (pattern,
// haystacks, cycle) triples, always with a fault-free pool (a dropped pooled object
// legitimately costs an allocation):
//
//	I5  the documented zero-allocation calls allocate nothing once warmed up;
//	I3  the deterministic footprint of all recycled state reachable from the value
//	    does not grow while a fixed cycle of calls is repeated;
//	I4  the real heap (HeapAlloc after forced GCs) does not grow with the number
//	    of repetitions.
type AScenario struct {
	Engine  string   `json:"engine"`
	Prop    string   `json:"prop"`
	Seed    uint64   `json:"seed"`
	Index   int      `json:"index"`
	Pattern string   `json:"pattern"`
	Knobs   Knobs    `json:"knobs"`
	Hays    []string `json:"hays_hex"`
	Cycle   []Op     `json:"cycle"`
	Reps    int      `json:"reps"`
	Only    string   `json:"only,omitempty"`        // replay: restrict I5 to this API
	Flush   bool     `json:"flush,omitempty"`       // every pool loses its content after each cycle (what a GC does to sync.Pool); I3/I3b only
	Variety []string `json:"variety_hex,omitempty"` // distinct inputs for the variety phase (I7)
	Slow    []bool   `json:"slow,omitempty"`        // haystacks left out as too slow (decided by wall clock on first execution, recorded so that a replay takes the same decisions)
}

type AOutcome struct {
	Class                                       string       `json:"class"` // "" | alloc | invariant
	Violations                                  []HViolation `json:"violations,omitempty"`
	Strategy                                    string
	ZeroCalls                                   int // zero-allocation measurements taken
	Gated                                       int // measurements dropped because a cache was cleared while measuring
	Cycles                                      int
	Footprint                                   []int `json:"footprint_first_cycles,omitempty"`
	DeepFootprint                               []int `json:"reachable_bytes_first_cycles,omitempty"`
	HeapEarly                                   uint64
	HeapLate                                    uint64
	HeapGrowthSeen                              bool
	VarietyBefore, VarietyAfter, VarietyGrowing int
}

var blowupPatterns = []string{`a[ab]{12}[cd]`, `[cd][ab]{10}a[ab]*x`, `ab[ab]{20}c`, `(a|b)*a(a|b){9}`, `[01]*1[01]{11}`, `[ab]*a[ab]{13}c`, `([ab]*)a[ab]{3}c`}

type zeroAPI struct {
	name string
	fn   func(re *coregex.Regex, b []byte, s string, buf *[][2]int)
}

var zeroAPIs = []zeroAPI{
	{"Match", func(re *coregex.Regex, b []byte, s string, buf *[][2]int) { re.Match(b) }},
	{"MatchString", func(re *coregex.Regex, b []byte, s string, buf *[][2]int) { re.MatchString(s) }},
	{"Engine.IsMatch", func(re *coregex.Regex, b []byte, s string, buf *[][2]int) { re.VerifEngine().IsMatch(b) }},
	{"Engine.FindIndices", func(re *coregex.Regex, b []byte, s string, buf *[][2]int) { re.VerifEngine().FindIndices(b) }},
	{"Count", func(re *coregex.Regex, b []byte, s string, buf *[][2]int) { re.Count(b, -1) }},
	{"CountString", func(re *coregex.Regex, b []byte, s string, buf *[][2]int) { re.CountString(s, -1) }},
	{"AllIndex", func(re *coregex.Regex, b []byte, s string, buf *[][2]int) {
		for range re.AllIndex(b) {
		}
	}},
	{"AllStringIndex", func(re *coregex.Regex, b []byte, s string, buf *[][2]int) {
		for range re.AllStringIndex(s) {
		}
	}},
	{"AppendAllIndex", func(re *coregex.Regex, b []byte, s string, buf *[][2]int) {
		*buf = re.AppendAllIndex((*buf)[:0], b, -1)
	}},
	{"AppendAllStringIndex", func(re *coregex.Regex, b []byte, s string, buf *[][2]int) {
		*buf = re.AppendAllStringIndex((*buf)[:0], s, -1)
	}},
}

func genAlloc(seed uint64, index int, tier string) *AScenario {
	r := newRng(seed)
	sc := &AScenario{Engine: "alloc", Prop: "C20", Seed: seed, Index: index}
	pr := r.fork(1)
	sc.Pattern = pickPattern(pr)
	if pr.p(1, 5) {
		sc.Pattern = mutatePattern(pr, sc.Pattern)
	}
	kr := r.fork(2)
	if kr.p(1, 2) {
		sc.Knobs = genKnobs(kr, true)
		sc.Knobs.MaxLiterals = 0
		if sc.Knobs.DFACap != 0 && kr.p(2, 3) {
			// mostly caches that hold a real working set without being the default size
			sc.Knobs.DFACap = pick(kr, []int{20000, 65536, 65536, 262144})
		}
	}
	// one run in eight is a state blow-up pattern on long inputs over its own
	// alphabet: hundreds of DFA states in a warm cache, the regime in which
	// "warm state is kept between calls" is a non-trivial claim
	blow := pr.p(1, 8)
	if blow {
		sc.Pattern = pick(pr, blowupPatterns)
	}
	re := parsePattern(sc.Pattern)
	genASCII = r.fork(9).p(1, 3) // a third of the scenarios: 7-bit haystacks (ASCII-only fast paths)
	alpha := patternAlphabet(sc.Pattern)
	hr := r.fork(3)
	nh := hr.between(1, 3)
	for i := 0; i < nh; i++ {
		if blow {
			sc.Hays = append(sc.Hays, hex.EncodeToString(genHaystack(hr, sc.Pattern, re, patternOnlyAlphabet(alpha), pick(hr, []int{3, 4, 4}))))
			continue
		}
		sc.Hays = append(sc.Hays, hex.EncodeToString(genHaystack(hr, sc.Pattern, re, alpha, pick(hr, []int{1, 2, 2, 3, 3}))))
	}
	if gr := r.fork(12); gr.p(1, 6) && len(sc.Hays) > 0 {
		// one input of 33..130 KB (an earlier one repeated): thresholds that only large
		// inputs cross (multi-megabyte visited tables, size-classed buffers)
		base, _ := hex.DecodeString(sc.Hays[gr.n(len(sc.Hays))])
		if len(base) > 0 {
			want := gr.between(33000, 130000)
			big := make([]byte, 0, want+len(base))
			for len(big) < want {
				big = append(big, base...)
			}
			// appended after nh was fixed: the repeated cycle and the variety phase never use
			// it (a 100 KB input in a 300-cycle plateau would take minutes); only the
			// allocation measurements I5/I5b do
			sc.Hays = append(sc.Hays, hex.EncodeToString(big))
		}
	}
	vr := r.fork(7)
	if vr.p(1, 2) {
		for i := 0; i < 130; i++ {
			a := alpha
			if blow {
				a = patternOnlyAlphabet(alpha)
			}
			h := genHaystack(vr, sc.Pattern, re, a, pick(vr, []int{1, 2, 2, 3}))
			if len(h) > 0 && vr.p(2, 3) {
				// spread the lengths: every input its own size, not a handful of classes
				want := vr.between(1, 4000)
				for len(h) < want {
					h = append(h, h...)
				}
				h = h[:want]
			}
			sc.Variety = append(sc.Variety, hex.EncodeToString(h))
		}
	}
	or := r.fork(4)
	k := or.between(1, 4)
	for i := 0; i < k; i++ {
		h := or.n(nh)
		op := genOp(or, h, len(sc.Hays[h])/2)
		for op.API == "PkgMatch" {
			// the package-level helpers compile a new value per call; what they leave in the
			// package-global pools is garbage a real sync.Pool drops at the next GC, but the
			// fault-free simulated pool keeps it - not memory "held per Regex"
			op = genOp(or, h, len(sc.Hays[h])/2)
		}
		sc.Cycle = append(sc.Cycle, op)
	}
	fr := r.fork(11)
	if fr.p(1, 4) {
		// "garbage collections in between": after every cycle all pools are emptied. A cycle
		// that needs two states at once (a callback re-entering the value) then makes the
		// pool's New run in every cycle; whatever New retains beyond the state it returns
		// shows as growth of the reachable bytes (I3b).
		sc.Flush = true
		if fr.p(2, 3) {
			// an enumeration over an input whose last match ends exactly at the end of the
			// input: several strategies probe "at == len" through a second entry point that
			// checks out a second state while the loop still holds the first
			h := fr.n(nh)
			if hb, err := hex.DecodeString(sc.Hays[h]); err == nil && re != nil {
				hb = append(hb, genMatch(fr, re, 0)...)
				sc.Hays[h] = hex.EncodeToString(hb)
			}
			sc.Cycle = append(sc.Cycle, Op{API: pick(fr, []string{"Count", "FindAllIndex", "AllIndexNested"}), H: h, N: -1})
		}
	}
	sc.Reps = pick(or, []int{40, 100, 300})
	if tier == "thorough" {
		sc.Reps = pick(or, []int{100, 1000, 4000})
	}
	return sc
}

// totalClears sums the clear counters of every lazy-DFA cache reachable from re;
// a cache that is (nearly) full counts as one more "clear in progress": with the
// clear budget exhausted it stays full and every call falls back after a failed
// insert.
func totalClears(re *coregex.Regex) int {
	e := re.VerifEngine()
	n := 0
	full := func(c lazyInfo) {
		n += c.ClearCount
		if c.Capacity > 0 && (c.MemoryUsage+c.Stride*4+256)*10 >= c.Capacity*9 {
			n += 1 << 20
		}
	}
	add := func(st *meta.SearchState) {
		for _, c := range st.VerifInfo().Caches {
			full(c)
		}
	}
	if st := e.VerifLocalState(); st != nil {
		add(st)
	}
	if p, ok := e.VerifStatePool().(*simrt.Pool); ok {
		for _, it := range p.Items() {
			if st, ok := it.(*meta.SearchState); ok {
				add(st)
			}
		}
	}
	for _, pp := range e.VerifCachePools() {
		if p, ok := pp.(*simrt.Pool); ok {
			for _, it := range p.Items() {
				if c, ok := it.(interface{ VerifInfo() lazyInfo }); ok {
					full(c.VerifInfo())
				}
			}
		}
	}
	return n
}

func topGrowth(a, b map[string]int) string {
	type kv struct {
		k string
		d int
	}
	var g []kv
	for k, v := range b {
		if v > a[k] {
			g = append(g, kv{k, v - a[k]})
		}
	}
	sort.Slice(g, func(i, j int) bool { return g[i].d > g[j].d || g[i].d == g[j].d && g[i].k < g[j].k })
	if len(g) > 4 {
		g = g[:4]
	}
	s := ""
	for _, e := range g {
		s += fmt.Sprintf("%s +%d; ", e.k, e.d)
	}
	return s
}

func mallocs() uint64 {
	var ms runtime.MemStats
	runtime.ReadMemStats(&ms)
	return ms.Mallocs
}

// footprint sums the capacities of every recycled buffer reachable from re.
func footprint(re *coregex.Regex) int {
	e := re.VerifEngine()
	total := 0
	addState := func(st *meta.SearchState) {
		info := st.VerifInfo()
		for _, c := range info.Caches {
			total += c.FlatTransCap*4 + c.StateListCap*8 + c.MemoryUsage
		}
		total += info.VisitedCap * 2
	}
	if st := e.VerifLocalState(); st != nil {
		addState(st)
	}
	if p, ok := e.VerifStatePool().(*simrt.Pool); ok {
		for _, it := range p.Items() {
			if st, ok := it.(*meta.SearchState); ok {
				addState(st)
			}
		}
	}
	for _, pp := range e.VerifCachePools() {
		if p, ok := pp.(*simrt.Pool); ok {
			for _, it := range p.Items() {
				if c, ok := it.(interface{ VerifInfo() lazyInfo }); ok {
					ci := c.VerifInfo()
					total += ci.FlatTransCap*4 + ci.StateListCap*8 + ci.MemoryUsage
				}
			}
		}
	}
	for _, bt := range e.VerifBacktrackers() {
		if p, ok := bt.VerifStatePool().(*simrt.Pool); ok {
			for _, it := range p.Items() {
				if st, ok := it.(*nfa.BacktrackerState); ok {
					total += cap(st.Visited) * 2
				}
			}
		}
	}
	return total
}

func heapAfterGC() uint64 {
	runtime.GC()
	runtime.GC()
	var ms runtime.MemStats
	runtime.ReadMemStats(&ms)
	return ms.HeapAlloc
}

// allocSites runs f with full allocation profiling and returns the innermost
// library function of every allocation it made.
func allocSites(f func()) []string {
	old := runtime.MemProfileRate
	runtime.MemProfileRate = 1
	defer func() { runtime.MemProfileRate = old }()
	snap := func() map[string]int64 {
		runtime.GC()
		runtime.GC()
		n, _ := runtime.MemProfile(nil, true)
		recs := make([]runtime.MemProfileRecord, n+64)
		n, ok := runtime.MemProfile(recs, true)
		if !ok {
			return nil
		}
		m := map[string]int64{}
		for _, rec := range recs[:n] {
			site := ""
			outer := ""
			frames := runtime.CallersFrames(rec.Stack())
			for {
				fr, more := frames.Next()
				if strings.Contains(fr.Function, "github.com/coregx/coregex") && !strings.Contains(fr.Function, "/simrt.") {
					site = strings.TrimPrefix(fr.Function, "github.com/coregx/coregex")
					site = strings.TrimPrefix(site, "/")
					break
				}
				if strings.HasPrefix(fr.Function, "main.") {
					break // allocated by the harness itself, not on behalf of the library
				}
				if outer == "" && fr.Function != "" && !strings.HasPrefix(fr.Function, "runtime.") && !strings.HasPrefix(fr.Function, "internal/runtime") {
					outer = fr.Function
				}
				if !more {
					if outer != "" {
						site = "outside-library:" + outer
					}
					break
				}
			}
			if site != "" {
				m[site] += rec.AllocObjects
			}
		}
		return m
	}
	before := snap()
	for i := 0; i < 8; i++ {
		f()
	}
	after := snap()
	var out []string
	for s, n := range after {
		if n-before[s] >= 4 {
			out = append(out, s)
		}
	}
	sortStrings(out)
	return out
}

func runAlloc(sc *AScenario) *AOutcome {
	out := &AOutcome{}
	hb := make([][]byte, len(sc.Hays))
	hs := make([]string, len(sc.Hays))
	for i, h := range sc.Hays {
		hb[i], _ = hex.DecodeString(h)
		hs[i] = string(hb[i])
	}
	simrt.PoolEpoch(simrt.PoolConfig{})
	re, err := compile(sc.Pattern, sc.Knobs)
	if err != nil {
		out.Class = "compile"
		return out
	}
	out.Strategy = re.VerifEngine().Strategy().String()
	prev := runtime.GOMAXPROCS(1)
	defer runtime.GOMAXPROCS(prev)
	fail := func(kind, what string) {
		if len(out.Violations) < 12 || kind == "invariant" {
			out.Violations = append(out.Violations, HViolation{Kind: kind, What: what})
		}
		if out.Class == "" || kind == "invariant" {
			out.Class = kind
		}
	}

	// haystacks on which a single enumeration already takes tens of milliseconds
	// (quadratic paths on long inputs) are left out: they would eat the batch's
	// budget and add nothing to what the memory monitors can see
	// Deterministic cost bound (no wall clock: the set of measurements must not depend
	// on machine load): a haystack is left out when length x (length/64+1) x NFA
	// size says a quadratic path would take tens of milliseconds per call.
	nfaSize := 50
	for _, d := range re.VerifEngine().VerifDFAs() {
		if n := d.VerifNFAStates(); n > nfaSize {
			nfaSize = n
		}
	}
	for _, bt := range re.VerifEngine().VerifBacktrackers() {
		if n := bt.NumStates(); n > nfaSize {
			nfaSize = n
		}
	}
	if n := len(sc.Pattern) * 2; n > nfaSize {
		// no DFA and no backtracker to ask (NFA-only strategies): the pattern's length is a
		// serviceable proxy for the size of its automaton
		nfaSize = n
	}
	slow := make([]bool, len(hb))
	recorded := len(sc.Slow) == len(hb) // replay: take the decisions the failing run took
	for i := range hb {
		n := len(hb[i])
		slow[i] = n*(n/64+1)/1000*nfaSize > 50000
		if recorded {
			slow[i] = sc.Slow[i]
		} else if slow[i] && n >= 33000 && n*nfaSize < 40000000 {
			// the one deliberately huge input: the bound above would always leave it out.
			// Probe it once; only a call that is actually fast is measured. This is the one
			// place a clock is read: it decides which measurements are taken (recorded in the
			// scenario for replay), never what a measurement means.
			t0 := time.Now()
			re.Match(hb[i])
			if time.Since(t0) < 8*time.Millisecond {
				t0 = time.Now()
				re.Count(hb[i], -1)
				slow[i] = time.Since(t0) > 12*time.Millisecond
			}
		}
		if !slow[i] {
			re.Count(hb[i], -1)
		}
	}
	sc.Slow = slow

	// I5 zero allocation after warm-up
	buf := make([][2]int, 0, 1<<16)
	for _, za := range zeroAPIs {

		if sc.Only != "" && sc.Only != za.name {
			continue
		}
		for i := range hb {
			if slow[i] {
				continue
			}
			f := func() { za.fn(re, hb[i], hs[i], &buf) }
			f()
			f()
			f()
			const runs = 10
			c0 := totalClears(re)
			m0 := mallocs()
			for k := 0; k < runs; k++ {
				f()
			}
			n := (mallocs() - m0) / runs
			if c1 := totalClears(re); c1 != c0 || c1 >= 1<<20 {
				// the cache could not hold this call's working set and was cleared while
				// measuring: re-determinizing legitimately allocates (like a dropped pooled
				// object), so the measurement says nothing about steady state
				out.Gated++
				continue
			}
			out.ZeroCalls++
			if n > 0 {
				sites := allocSites(f)
				if len(sites) == 0 {
					sites = []string{"<no library frame found>"}
				}
				for _, s := range sites {
					fail("alloc", fmt.Sprintf("%s allocates at %s (%d allocs/op on haystack %d)", za.name, s, n, i))
				}
			}
		}
	}
	// I5b alternation: "for any haystack" also means for any order of haystacks. After
	// warm-up on both, alternating a large and a small input must allocate nothing either
	// (a buffer released because the previous call needed less, then re-allocated).
	if sc.Only == "" || strings.HasPrefix(sc.Only, "alt:") {
		big, small := -1, -1
		for i := range hb {
			if slow[i] {
				continue
			}
			if big < 0 || len(hb[i]) > len(hb[big]) {
				big = i
			}
			if small < 0 || len(hb[i]) < len(hb[small]) {
				small = i
			}
		}
		if big >= 0 && small >= 0 && big != small {
			nb := len(hb[big])
			for _, za := range zeroAPIs {
				if sc.Only != "" && sc.Only != "alt:"+za.name {
					continue
				}
				switch za.name {
				case "Match", "Engine.FindIndices", "Count", "AllIndex", "AppendAllIndex":
				default:
					continue // the string variants share their byte twins' paths
				}
				if nb < 33000 && nb*(nb/64+1)/1000*nfaSize > 8000 {
					continue // a call on the large input is expensive: I5 already paid for it once
				}
				sub := func() { re.FindSubmatchIndex(hb[small]) }
				for variant := 0; variant < 2; variant++ {
					f := func() {
						za.fn(re, hb[big], hs[big], &buf)
						if variant == 0 {
							za.fn(re, hb[small], hs[small], &buf)
						} else {
							sub() // a call of another family in between (captures are not zero-allocation themselves)
						}
					}
					f()
					f()
					const runs = 6
					c0 := totalClears(re)
					var base uint64
					if variant == 1 {
						// cost of the interposed capture call alone, measured the same way
						sub()
						m := mallocs()
						for k := 0; k < runs; k++ {
							sub()
						}
						base = mallocs() - m
					}
					m0 := mallocs()
					for k := 0; k < runs; k++ {
						f()
					}
					n := mallocs() - m0
					if c1 := totalClears(re); c1 != c0 || c1 >= 1<<20 {
						out.Gated++
						continue
					}
					out.ZeroCalls++
					if n > base+runs/2 {
						sites := allocSites(func() { za.fn(re, hb[big], hs[big], &buf); za.fn(re, hb[small], hs[small], &buf) })
						if variant == 1 {
							own := map[string]bool{}
							for _, s := range allocSites(sub) {
								own[s] = true
							}
							sites = nil
							for _, s := range allocSites(func() { sub(); za.fn(re, hb[big], hs[big], &buf) }) {
								if !own[s] {
									sites = append(sites, s)
								}
							}
						}
						if len(sites) == 0 {
							sites = []string{"<no library frame found>"}
						}
						for _, s := range sites {
							fail("alloc", fmt.Sprintf("%s allocates at %s (%d allocations in %d alternations of haystack %d and %s, %d for the interposed calls alone)", za.name, s, n, runs, big, map[int]string{0: fmt.Sprintf("haystack %d", small), 1: "a FindSubmatchIndex call"}[variant], base))
						}
					}
				}
			}
		}
	}
	if sc.Only != "" {
		return out
	}

	// I3/I4 plateau while a fixed cycle repeats
	var fp, deepFp []int
	maxEarly, maxEarlyDeep := 0, 0
	for c := 0; c < sc.Reps; c++ {
		if sc.Flush && c > 0 {
			simrt.PoolFlush()
		}
		for i := range sc.Cycle {
			if !slow[sc.Cycle[i].H] {
				execOp(re, &sc.Cycle[i], hb, hs)
			}
		}
		f := footprint(re)
		if c < 40 || c%8 == 0 {
			// everything reachable from the value, the state in its single-slot cache and
			// the borrowed-helper pools, by reflection (I3b)
			df := deepFootprint(re, re.VerifEngine().VerifLocalState(), simrt.Pools())
			if c >= 1 && c <= 5 && df > maxEarlyDeep {
				maxEarlyDeep = df
			}
			if c >= 6 && df > maxEarlyDeep+maxEarlyDeep/50+4096 {
				fail("invariant", fmt.Sprintf("memory reachable from the Regex grows while a fixed cycle repeats: %d bytes after cycle %d, at most %d after cycles 2-6", df, c+1, maxEarlyDeep))
				break
			}
			if c < 8 {
				deepFp = append(deepFp, df)
			}
		}
		if c < 8 {
			fp = append(fp, f)
		}
		if c >= 1 && c <= 5 && f > maxEarly {
			maxEarly = f
		}
		if c >= 6 && f > maxEarly {
			fail("invariant", fmt.Sprintf("recycled-state footprint grows while a fixed cycle repeats: %d bytes after cycle %d, at most %d after cycles 2-6", f, c+1, maxEarly))
			break
		}
		if c == 9 {
			out.HeapEarly = heapAfterGC()
		}
		for _, b := range checkInvariants(re) {
			fail("invariant", b)
		}
		if out.Class == "invariant" {
			break
		}
	}
	// I7 variety: after warming up on the largest of a set of different inputs, working
	// through the rest may only grow what has a configured bound with room left (lazy-DFA
	// caches up to their capacity, the visited table up to its cap); anything else that
	// grows with the number of distinct inputs is unbounded growth.
	if len(sc.Variety) > 12 {
		vb := make([][]byte, len(sc.Variety))
		for i, h := range sc.Variety {
			vb[i], _ = hex.DecodeString(h)
		}
		// largest first
		for i := 1; i < len(vb); i++ {
			for j := i; j > 0 && len(vb[j]) > len(vb[j-1]); j-- {
				vb[j], vb[j-1] = vb[j-1], vb[j]
			}
		}
		var varietyBuf [][2]int
		use := func(b []byte) {
			n := len(b)
			if n*(n/64+1)/1000*nfaSize > 50000 {
				return
			}
			re.Count(b, -1)
			re.FindSubmatchIndex(b)
			re.Match(b)
			re.ReplaceAllLiteral(b, nil)
			varietyBuf = re.AppendAllIndex(varietyBuf[:0], b, -1)
			re.FindAllSubmatchIndex(b, 3)
			re.FindReaderIndex(bytes.NewReader(b))
		}
		warm := 10
		for _, b := range vb[:warm] {
			use(b)
		}
		for _, b := range vb[:warm] {
			use(b)
		}
		// One-time allocations (an engine's scratch on its first use, a buffer reaching
		// its largest size) can land anywhere, so a single jump proves nothing; growth
		// that keeps coming interval after interval as new inputs arrive, beyond what the
		// bounded caches took from their remaining room, does.
		measure := func() (int, map[string]int) {
			return deepBreakdown(true, re, re.VerifEngine().VerifLocalState(), simrt.Pools())
		}
		const step = 10
		stage := func(inputs [][]byte) (intervals, growing, d0, d1 int, b0, b1 map[string]int) {
			d0, b0 = measure()
			dPrev := d0
			for i := 0; i+step <= len(inputs); i += step {
				for _, b := range inputs[i : i+step] {
					use(b)
				}
				d, bb := measure()
				intervals++
				if d-dPrev > 32 {
					growing++
				}
				dPrev, b1 = d, bb
			}
			d1 = dPrev
			return
		}
		rest := vb[warm:]
		half := len(rest) / 2 / step * step
		n1, g1, d0, d1, b0, _ := stage(rest[:half])
		out.VarietyBefore, out.VarietyAfter, out.VarietyGrowing = d0, d1, g1
		if g1 >= 3 && os.Getenv("VSIM_VARIETY_NOTES") != "" {
			_, bb := measure()
			fmt.Fprintln(os.Stderr, "variety note:", sc.Index, sc.Pattern, out.Strategy, g1, d0, d1, topGrowth(b0, bb))
		}
		if n1 >= 6 && g1 >= n1-1 {
			// confirm on as many inputs again: a leak keeps going, start-up effects do not
			n2, g2, _, d2, _, b2 := stage(rest[half:])
			out.VarietyAfter = d2
			if n2 >= 6 && g2 >= n2-1 {
				fail("invariant", fmt.Sprintf("memory reachable from the Regex (outside the capacity-bounded caches and tables) grows with the variety of inputs: %d bytes after %d warm-up inputs, %d after %d more, growing in %d of %d and then %d of %d intervals of %d new inputs; grew: %s", d0, warm, d2, (n1+n2)*step, g1, n1, g2, n2, step, topGrowth(b0, b2)))
			}
		}
	}
	out.Cycles = sc.Reps
	out.Footprint = fp
	out.DeepFootprint = deepFp
	if sc.Reps > 20 && out.HeapEarly > 0 {
		out.HeapLate = heapAfterGC()
		// threshold: generous fixed margin; growth per repetition is what matters
		// calibrated on the unchanged tree: the process's own garbage makes HeapAlloc wobble by
		// up to ~2 MB between two forced collections, so only growth beyond 4 MB that also
		// doubles the early figure counts (a leak of >= ~1 KB per call in thorough runs)
		if out.HeapLate > out.HeapEarly+4<<20 && out.HeapLate > out.HeapEarly*2 {
			// I4 is informational only: HeapAlloc after forced collections turned out not to
			// be reproducible from run to run (a 29 MB jump appeared in one of three
			// identical executions), so it cannot be an oracle. Growth of anything reachable
			// from the value or the pools is decided by the deterministic I3/I3b instead.
			out.HeapGrowthSeen = true
		}
	}
	return out
}

func allocBatch(base uint64, from, to int, tier string, budget time.Duration, start time.Time, emit func(any)) {
	sum := &Summary{Kind: "summary", Engine: "alloc", From: from, To: to, Failures: map[string]int{}, Policies: map[string]int{}, Strategies: map[string]int{},
		Cells: map[string]int{}, Knobs: map[string]int{}, Probes: map[string]int64{}, Extra: map[string]any{}}
	zero, cycles, gated := 0, 0, 0
	var slowest time.Duration
	slowestIdx := -1
	for i := from; i < to; i++ {
		if budget > 0 && time.Since(start) > budget {
			sum.To = i
			break
		}
		seed := runSeed(base, i)
		sc := genAlloc(seed, i, tier)
		t0 := time.Now()
		out := runAlloc(sc)
		if d := time.Since(t0); d > slowest {
			slowest, slowestIdx = d, i
			var lens []int
			for _, h := range sc.Hays {
				lens = append(lens, len(h)/2)
			}
			sum.Extra["slowest_scenario"] = fmt.Sprintf("%q knobs=%+v lens=%v slow=%v flush=%v reps=%d cycle=%d variety=%d", sc.Pattern, sc.Knobs, lens, sc.Slow, sc.Flush, sc.Reps, len(sc.Cycle), len(sc.Variety))
		}
		if out.Class == "compile" {
			continue
		}
		sum.Runs++
		sum.Strategies[out.Strategy]++
		if out.HeapGrowthSeen {
			sum.Probes["heap_growth_observed_informational"]++
		}
		if len(sc.Variety) > 0 {
			sum.Probes["variety_phase_runs"]++
			sum.Probes[fmt.Sprintf("variety_growing_intervals_%d", out.VarietyGrowing)]++
		}
		zero += out.ZeroCalls
		gated += out.Gated
		cycles += out.Cycles
		if sc.Knobs.hooked() {
			sum.Knobs["hooked_capacity"]++
		}
		h := newHasher()
		h.str(out.Strategy)
		h.str(sc.Pattern)
		h.int(int64(sc.Knobs.DFACap))
		sum.Nontrivial = append(sum.Nontrivial, uint64(h))
		if len(sum.Samples) < 2 {
			sum.Samples = append(sum.Samples, map[string]any{"index": i, "seed": seed, "pattern": sc.Pattern, "knobs": sc.Knobs, "strategy": out.Strategy, "cycle": sc.Cycle, "reps": sc.Reps,
				"footprint_first_cycles": out.Footprint, "heap_after_10_cycles": out.HeapEarly, "heap_at_end": out.HeapLate, "zero_alloc_measurements": out.ZeroCalls})
		}
		if out.Class != "" {
			// one failure line per violation so each is matched against the listed findings on its own
			for _, v := range out.Violations {
				sum.Failures[v.Kind]++
				o := *out
				o.Class = v.Kind
				o.Violations = []HViolation{v}
				s := *sc
				if v.Kind == "alloc" {
					s.Only = strings.SplitN(v.What, " ", 2)[0]
				}
				emit(FailLine{Kind: "failure", Engine: "alloc", Index: i, Seed: seed, Outcome: &o, Scenario: &s})
			}
		}
	}
	sum.Extra["slowest_scenario_s"] = slowest.Seconds()
	sum.Extra["slowest_scenario_index"] = slowestIdx
	sum.Extra["zero_alloc_measurements"] = zero
	sum.Extra["zero_alloc_gated_cache_cleared"] = gated
	sum.Extra["plateau_cycles"] = cycles
	sum.WallS = time.Since(start).Seconds()
	emit(sum)
}

func replayAlloc(path string, emit func(any)) int {
	b, err := os.ReadFile(path)
	if err != nil {
		fmt.Fprintln(os.Stderr, err)
		return 2
	}
	var rf struct {
		Scenario *AScenario `json:"scenario"`
	}
	if err := json.Unmarshal(b, &rf); err != nil || rf.Scenario == nil {
		fmt.Fprintln(os.Stderr, "bad replay file", err)
		return 2
	}
	out := runAlloc(rf.Scenario)
	emit(FailLine{Kind: "replay", Engine: "alloc", Index: rf.Scenario.Index, Seed: rf.Scenario.Seed, Outcome: out, Scenario: rf.Scenario})
	if out.Class != "" {
		return 1
	}
	return 0
}
