package main

func main() {}
