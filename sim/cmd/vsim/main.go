// Command vsim is the driver of the deterministic-simulation checks.
//
//	vsim check <property> [--tier quick|thorough]   (VERIF_SEED, VERIF_TIER honoured)
//	vsim replay <file>
//	vsim selftest
//
// Every invocation rebuilds an instrumented scratch copy of /repo's current
// working tree, runs seeded simulated runs in worker processes, classifies
// failures against /verif/known_findings.json, minimises and replays anything
// that is not listed, writes /verif/evidence/<id>.json and exits
// 0 (held), 1 (VIOLATION line printed) or 2 (infrastructure trouble).
package main

import (
	"bufio"
	"context"
	"encoding/json"
	"fmt"
	"os"
	"os/exec"
	"path/filepath"
	"runtime"
	"sort"
	"strconv"
	"strings"
	"sync"
	"time"
)

var verifDir = "/verif"

type propSpec struct {
	engine string // conc | history | stream
	race   bool
	quick  int // runs
	thor   int
	capQ   time.Duration // wall-clock cap for the run phase
	capT   time.Duration
}

var props = map[string]propSpec{
	"C06": {"conc", true, 14000, 400000, 110 * time.Second, 45 * time.Minute},
	"C13": {"history", false, 24000, 600000, 150 * time.Second, 40 * time.Minute},
	"C10": {"history", false, 16000, 400000, 120 * time.Second, 30 * time.Minute},
	"C20": {"history", false, 12000, 300000, 120 * time.Second, 30 * time.Minute},
	"C01": {"stream", false, 160000, 4000000, 60 * time.Second, 10 * time.Minute},
	"C02": {"stream", false, 160000, 4000000, 60 * time.Second, 10 * time.Minute},
	"C03": {"stream", false, 160000, 4000000, 60 * time.Second, 10 * time.Minute},
	"C11": {"stream", false, 160000, 4000000, 60 * time.Second, 10 * time.Minute},
}

type failure struct {
	Kind     string          `json:"kind"`
	Engine   string          `json:"engine"`
	Index    int             `json:"index"`
	Seed     uint64          `json:"seed"`
	Outcome  json.RawMessage `json:"outcome"`
	Scenario json.RawMessage `json:"scenario"`
}

type knownFinding struct {
	Status   string         `json:"status"` // known | fixed
	Property string         `json:"property"`
	Kind     string         `json:"kind"` // race | result | alloc | invariant
	Key      map[string]any `json:"key"`
	What     string         `json:"what"`
	Replay   string         `json:"replay,omitempty"`
	Commit   string         `json:"commit,omitempty"`
	ID       string         `json:"id"`
}

func fatal(format string, a ...any) {
	fmt.Fprintf(os.Stderr, "vsim: "+format+"\n", a...)
	os.Exit(2)
}

func main() {
	if v := os.Getenv("VERIF_DIR"); v != "" {
		verifDir = v
	}
	if len(os.Args) < 2 {
		fatal("usage: vsim check <id> [--tier quick|thorough] | replay <file> | selftest")
	}
	switch os.Args[1] {
	case "check":
		if len(os.Args) < 3 {
			fatal("check needs a property id")
		}
		tier := os.Getenv("VERIF_TIER")
		for i := 3; i < len(os.Args); i++ {
			if os.Args[i] == "--tier" && i+1 < len(os.Args) {
				tier = os.Args[i+1]
			}
		}
		if tier == "" {
			tier = "quick"
		}
		os.Exit(check(os.Args[2], tier))
	case "replay":
		if len(os.Args) < 3 {
			fatal("replay needs a file")
		}
		os.Exit(replay(os.Args[2]))
	case "selftest":
		os.Exit(selftest())
	default:
		fatal("unknown command %s", os.Args[1])
	}
}

func baseSeed(tier string) uint64 {
	if v := os.Getenv("VERIF_SEED"); v != "" {
		if n, err := strconv.ParseUint(v, 10, 64); err == nil {
			return n
		}
		if n, err := strconv.ParseInt(v, 10, 64); err == nil {
			return uint64(n)
		}
	}
	if tier == "thorough" {
		return 20260923
	}
	return 1
}

// scratch builds the instrumented copy and the workers; returns the directory.
var needNoYield bool

func scratch() (string, func()) {
	dir, err := os.MkdirTemp(tmpRoot(), "vsim-")
	if err != nil {
		fatal("mktemp: %v", err)
	}
	cleanup := func() { os.RemoveAll(dir) }
	cmd := exec.Command(filepath.Join(verifDir, "mkscratch.sh"), dir)
	if needNoYield {
		cmd.Env = append(os.Environ(), "VSIM_NOYIELD=1")
	}
	cmd.Stdout = os.Stderr
	cmd.Stderr = os.Stderr
	if err := cmd.Run(); err != nil {
		cleanup()
		fatal("building the instrumented copy of /repo failed: %v", err)
	}
	return dir, cleanup
}

func tmpRoot() string {
	if v := os.Getenv("VERIF_TMP"); v != "" {
		return v
	}
	return "/var/tmp"
}

func workerEnv(dir string, race bool, nodedup bool) []string {
	env := os.Environ()
	if race {
		g := "log_path=" + filepath.Join(dir, "logs", "race") + " exitcode=0 history_size=7 halt_on_error=0"
		if nodedup {
			g += " suppress_equal_stacks=0 suppress_equal_addresses=0"
		}
		env = append(env, "GORACE="+g)
	}
	return env
}

type shardResult struct {
	fails   []failure
	summary map[string]any
	err     error
}

func runShard(dir string, spec propSpec, prop string, seed uint64, from, to int, tier string, budget time.Duration, k int, extra ...string) shardResult {
	bin := filepath.Join(dir, "bin", "worker")
	if spec.race {
		bin = filepath.Join(dir, "bin", "worker-race")
	}
	return runShardBin(bin, dir, spec, prop, seed, from, to, tier, budget, k, extra...)
}

func runShardBin(bin, dir string, spec propSpec, prop string, seed uint64, from, to int, tier string, budget time.Duration, k int, extra ...string) shardResult {
	out := filepath.Join(dir, fmt.Sprintf("shard-%d.jsonl", k))
	args := []string{"-engine", spec.engine, "-prop", prop, "-seed", fmt.Sprint(seed), "-from", fmt.Sprint(from), "-to", fmt.Sprint(to), "-tier", tier,
		"-sites", filepath.Join(dir, "sites.json"), "-budget", budget.String(), "-o", out}
	args = append(args, extra...)
	// watchdog: a worker stops generating runs when its budget is used up, so one that is
	// still alive long after that is stuck inside a call (native-speed engines have no step
	// budget). It is killed and the check ends with exit 2 - infrastructure, never a verdict.
	limit := 3*budget + 5*time.Minute
	ctx, cancel := context.WithTimeout(context.Background(), limit)
	defer cancel()
	cmd := exec.CommandContext(ctx, bin, args...)
	cmd.Env = workerEnv(dir, spec.race, false)
	var stderr strings.Builder
	cmd.Stderr = &stderr
	if err := cmd.Run(); err != nil {
		if ctx.Err() != nil {
			return shardResult{err: fmt.Errorf("worker shard %d: WATCHDOG: still running %v after start (budget %v); killed", k, limit, budget)}
		}
		return shardResult{err: fmt.Errorf("worker shard %d: %v\n%s", k, err, tail(stderr.String(), 2000))}
	}
	return readShard(out)
}

func tail(s string, n int) string {
	if len(s) > n {
		return s[len(s)-n:]
	}
	return s
}

func readShard(path string) shardResult {
	var res shardResult
	f, err := os.Open(path)
	if err != nil {
		res.err = err
		return res
	}
	defer f.Close()
	sc := bufio.NewScanner(f)
	sc.Buffer(make([]byte, 1<<20), 1<<30)
	for sc.Scan() {
		line := sc.Bytes()
		var head struct {
			Kind string `json:"kind"`
		}
		if err := json.Unmarshal(line, &head); err != nil {
			res.err = fmt.Errorf("bad worker output: %v", err)
			return res
		}
		switch head.Kind {
		case "failure", "replay", "minimized":
			var fl failure
			json.Unmarshal(line, &fl)
			res.fails = append(res.fails, fl)
		case "summary":
			json.Unmarshal(line, &res.summary)
		}
	}
	if res.summary == nil && len(res.fails) == 0 {
		res.err = fmt.Errorf("worker wrote no summary to %s", path)
	}
	return res
}

func loadKnown() []knownFinding {
	b, err := os.ReadFile(filepath.Join(verifDir, "known_findings.json"))
	if err != nil {
		return nil
	}
	var k []knownFinding
	if err := json.Unmarshal(b, &k); err != nil {
		fatal("known_findings.json: %v", err)
	}
	return k
}

// matchKnown returns the listed finding (status known) that explains f, if any.
func matchKnown(known []knownFinding, prop string, f *failure) *knownFinding {
	var out struct {
		Class      string                  `json:"class"`
		Strategy   string                  `json:"Strategy"`
		Races      []struct{ A, B string } `json:"races"`
		HistFuncs  []string                `json:"history_funcs"`
		PfMisses   bool                    `json:"prefilter_misses_match"`
		AccelDead  bool                    `json:"accel_over_dead"`
		Funcs      []string                `json:"rare_funcs"`
		Violations []struct {
			Kind string `json:"kind"`
			What string `json:"what"`
		} `json:"violations"`
	}
	json.Unmarshal(f.Outcome, &out)
	var sc struct {
		Knobs map[string]any `json:"knobs"`
	}
	json.Unmarshal(f.Scenario, &sc)
	for i := range known {
		k := &known[i]
		if k.Status != "known" || k.Property != prop {
			continue
		}
		switch k.Kind {
		case "race":
			if out.Class != "race" || len(out.Races) == 0 {
				continue
			}
			want, _ := k.Key["race_pair"].(string)
			all := true
			for _, r := range out.Races {
				if r.A+" <-> "+r.B != want {
					all = false
				}
			}
			if all {
				return k
			}
		case "result":
			if out.Class != "result" && out.Class != "history" {
				continue
			}
			ok := true
			if v, has := k.Key["knob_nondefault"]; has {
				name, _ := v.(string)
				if sc.Knobs == nil || sc.Knobs[name] == nil {
					ok = false
				}
			}
			if _, has := k.Key["prefilter_misses_match"]; has && !out.PfMisses {
				ok = false
			}
			if _, has := k.Key["accel_over_dead"]; has && !out.AccelDead {
				ok = false
			}
			if v, has := k.Key["strategy_in"]; has {
				found := false
				if l, isList := v.([]any); isList {
					for _, x := range l {
						if xs, _ := x.(string); xs == out.Strategy {
							found = true
						}
					}
				}
				if !found {
					ok = false
				}
			}
			if v, has := k.Key["history_func_any"]; has {
				found := false
				if l, isList := v.([]any); isList {
					for _, x := range l {
						xs, _ := x.(string)
						for _, fn := range out.HistFuncs {
							if fn == xs {
								found = true
							}
						}
					}
				}
				if !found {
					ok = false
				}
			}
			// an entry whose key is empty or has a condition this driver does not know matches nothing
			if len(k.Key) == 0 {
				ok = false
			}
			for name := range k.Key {
				switch name {
				case "knob_nondefault", "history_func", "strategy_in", "history_func_any", "prefilter_misses_match", "accel_over_dead":
				default:
					ok = false
				}
			}
			if v, has := k.Key["history_func"]; has {
				name, _ := v.(string)
				found := false
				for _, fn := range out.HistFuncs {
					if fn == name {
						found = true
					}
				}
				if !found {
					ok = false
				}
			}
			if ok {
				return k
			}
		case "invariant", "alloc":
			if out.Class != "invariant" && out.Class != "alloc" {
				continue
			}
			sub, _ := k.Key["what_contains"].(string)
			if sub == "" {
				continue
			}
			all := len(out.Violations) > 0
			for _, v := range out.Violations {
				if (v.Kind == "invariant" || v.Kind == "alloc") && !strings.Contains(v.What, sub) {
					all = false
				}
			}
			if all {
				return k
			}
		}
	}
	return nil
}

func failKey(f *failure) string {
	var out struct {
		Class      string                  `json:"class"`
		Races      []struct{ A, B string } `json:"races"`
		What       string                  `json:"what"`
		Violations []struct {
			Kind string `json:"kind"`
			What string `json:"what"`
		} `json:"violations"`
	}
	json.Unmarshal(f.Outcome, &out)
	k := out.Class
	if len(out.Races) > 0 {
		k += ":" + out.Races[0].A + " <-> " + out.Races[0].B
	}
	if out.What != "" {
		k += ":" + out.What
	}
	if len(out.Violations) > 0 {
		w := out.Violations[0].What
		if i := strings.Index(w, " uses "); i > 0 {
			w = w[:i]
		}
		k += ":" + out.Violations[0].Kind + ":" + w
	}
	return k
}

func check(prop, tier string) int {
	spec, ok := props[prop]
	if !ok {
		fatal("property %s is not claimed by this framework", prop)
	}
	start := time.Now()
	seed := baseSeed(tier)
	needNoYield = prop == "C20"
	dir, cleanup := scratch()
	defer cleanup()
	os.MkdirAll(filepath.Join(dir, "logs"), 0o755)
	loadSiteFuncs(dir)
	buildS := time.Since(start).Seconds()

	total, wall := spec.quick, spec.capQ
	if tier == "thorough" {
		total, wall = spec.thor, spec.capT
	}
	nsh := runtime.NumCPU()
	if nsh > 16 {
		nsh = 16
	}
	per := (total + nsh - 1) / nsh
	results := make([]shardResult, nsh)
	var wg sync.WaitGroup
	for k := 0; k < nsh; k++ {
		wg.Add(1)
		go func(k int) {
			defer wg.Done()
			results[k] = runShard(dir, spec, prop, seed, k*per, (k+1)*per, tier, wall, k)
		}(k)
	}
	wg.Wait()
	var fails []failure
	var sums []map[string]any
	for k, r := range results {
		if r.err != nil {
			fmt.Fprintf(os.Stderr, "vsim: %v\n", r.err)
			fmt.Printf("INFRASTRUCTURE property=%s shard=%d failed (no verdict)\n", prop, k)
			return 2
		}
		fails = append(fails, r.fails...)
		sums = append(sums, r.summary)
	}
	// extra engines
	var extraEvidence map[string]any
	if prop == "C20" {
		ev, afails, err := allocCheck(dir, seed, tier)
		if err != nil {
			fmt.Fprintf(os.Stderr, "vsim: %v\n", err)
			return 2
		}
		extraEvidence = ev
		fails = append(fails, afails...)
	}

	if prop == "C13" {
		ev, lfails, err := l2Check(dir, seed, tier)
		if err != nil {
			fmt.Fprintf(os.Stderr, "vsim: %v\n", err)
			return 2
		}
		extraEvidence = ev
		fails = append(fails, lfails...)
	}

	known := loadKnown()
	knownSeen := map[string]int{}
	deferred := 0
	unlistedHistory := 0
	var unknown []failure
	for i := range fails {
		f := &fails[i]
		var oc struct {
			Class string `json:"class"`
		}
		json.Unmarshal(f.Outcome, &oc)
		if prop == "C06" && oc.Class == "history" {
			// persists without interleaving: history dependence, C13's business
			if matchKnown(known, "C13", f) != nil {
				deferred++
				continue
			}
			deferred++
			unlistedHistory++
			if unlistedHistory <= 3 {
				// keep the scenario so that the C13 side can look at it
				os.MkdirAll(filepath.Join(verifDir, "replays", "deferred"), 0o755)
				bb, _ := json.MarshalIndent(map[string]any{"property": "C06", "engine": f.Engine, "index": f.Index, "seed": f.Seed, "outcome": f.Outcome, "scenario": f.Scenario}, "", " ")
				os.WriteFile(filepath.Join(verifDir, "replays", "deferred", fmt.Sprintf("C06-%d-%d.json", f.Seed, f.Index)), bb, 0o644)
			}
			continue
		}
		if k := matchKnown(known, prop, f); k != nil {
			knownSeen[k.ID]++
			continue
		}
		if (prop == "C10" || prop == "C20") && oc.Class == "result" {
			// history dependence already listed under C13 is not a second finding
			if matchKnown(known, "C13", f) != nil {
				deferred++
				continue
			}
		}
		if prop == "C06" && oc.Class == "result" {
			// a result difference in a run whose value is subject to a listed C13 finding is not attributable to interleaving
			if matchKnown(known, "C13", f) != nil {
				deferred++
				continue
			}
		}
		unknown = append(unknown, *f)
	}

	// minimise and confirm unknown failures (one per distinct key, at most 5)
	violations := 0
	var violLines []string
	seenKeys := map[string]bool{}
	os.MkdirAll(filepath.Join(verifDir, "replays"), 0o755)
	for i := range unknown {
		f := &unknown[i]
		key := failKey(f)
		if seenKeys[key] || len(seenKeys) >= 5 {
			continue
		}
		seenKeys[key] = true
		path, reproduced, stillUnknown := minimiseAndConfirm(dir, spec, prop, f, known, len(seenKeys))
		if !reproduced {
			fmt.Printf("INFRASTRUCTURE property=%s a failing run (index %d) did not reproduce from its replay file %s\n", prop, f.Index, path)
			writeEvidence(prop, tier, seed, sums, start, buildS, nsh, violations, knownSeen, deferred, extraEvidence, "replay did not reproduce")
			return 2
		}
		if !stillUnknown {
			continue
		}
		violations++
		violLines = append(violLines, fmt.Sprintf("VIOLATION property=%s replay=%s", prop, path))
	}

	// re-observe listed findings from their committed replays
	for i := range known {
		k := &known[i]
		if k.Status != "known" || k.Property != prop {
			continue
		}
		if k.Replay != "" {
			if reproduces(dir, spec, filepath.Join(verifDir, k.Replay)) {
				knownSeen[k.ID]++
			}
		}
		if knownSeen[k.ID] > 0 {
			fmt.Printf("KNOWN-FINDING: property=%s %s [%s; observed %d time(s) in this run]\n", prop, k.What, k.ID, knownSeen[k.ID])
		}
	}
	if unlistedHistory > 0 {
		fmt.Printf("NOTE property=C06 %d run(s) showed a result difference that persists without interleaving and matches no listed C13 finding (history dependence is decided by the C13 check, not here)\n", unlistedHistory)
	}
	for _, l := range violLines {
		fmt.Println(l)
	}
	writeEvidence(prop, tier, seed, sums, start, buildS, nsh, violations, knownSeen, deferred, extraEvidence, "")
	if violations > 0 {
		return 1
	}
	fmt.Printf("OK property=%s tier=%s seed=%d runs=%d wall=%.0fs\n", prop, tier, seed, totalRuns(sums), time.Since(start).Seconds())
	return 0
}

func totalRuns(sums []map[string]any) int {
	n := 0
	for _, s := range sums {
		if v, ok := s["runs"].(float64); ok {
			n += int(v)
		}
	}
	return n
}

func engineOf(f *failure) string { return f.Engine }

// minimiseAndConfirm shrinks the failing scenario in a fresh worker process,
// stores the replay file and replays it in another fresh process.
func minimiseAndConfirm(dir string, spec propSpec, prop string, f *failure, known []knownFinding, n int) (path string, reproduced bool, stillUnknown bool) {
	raw := filepath.Join(dir, fmt.Sprintf("fail-%d.json", n))
	b, _ := json.Marshal(f)
	os.WriteFile(raw, b, 0o644)
	min := filepath.Join(dir, fmt.Sprintf("min-%d.jsonl", n))
	eng := f.Engine
	if eng == "alloc" {
		path = filepath.Join(verifDir, "replays", fmt.Sprintf("%s-%d-%d-%d.json", prop, f.Seed, f.Index, n))
		bb, _ := json.MarshalIndent(map[string]any{"property": prop, "engine": eng, "index": f.Index, "seed": f.Seed, "outcome": f.Outcome, "scenario": f.Scenario}, "", " ")
		os.WriteFile(path, bb, 0o644)
		return path, reproduces(dir, spec, path), true
	}
	bin := filepath.Join(dir, "bin", "worker")
	race := spec.race && eng == "conc"
	if race {
		bin = filepath.Join(dir, "bin", "worker-race")
	}
	// minimisation only decides how small the replay file is, never the verdict: if it
	// does not finish in time the unminimised failure is the replay
	mctx, mcancel := context.WithTimeout(context.Background(), 4*time.Minute)
	cmd := exec.CommandContext(mctx, bin, "-engine", eng, "-prop", prop, "-sites", filepath.Join(dir, "sites.json"), "-minimize", raw, "-o", min)
	cmd.Env = workerEnv(dir, race, true)
	cmd.Stderr = os.Stderr
	cmd.Run()
	mcancel()
	best := *f
	if r := readShard(min); r.err == nil && len(r.fails) > 0 {
		var oc struct {
			Class string `json:"class"`
		}
		json.Unmarshal(r.fails[0].Outcome, &oc)
		if oc.Class != "" {
			best = r.fails[0]
		}
	}
	best.Kind = "replay-file"
	path = filepath.Join(verifDir, "replays", fmt.Sprintf("%s-%d-%d.json", prop, f.Seed, f.Index))
	bb, _ := json.MarshalIndent(map[string]any{"property": prop, "engine": eng, "index": best.Index, "seed": best.Seed, "outcome": best.Outcome, "scenario": best.Scenario}, "", " ")
	os.WriteFile(path, bb, 0o644)
	// fresh-process replay. The schedule, the pool decisions and every result replay
	// exactly; what the simulator does not own is the race detector's shadow memory (four
	// cells per word, evicted pseudo-randomly), so on a long run a race report can go
	// missing in one process and not in the next. A replay that shows nothing is
	// therefore repeated (minimised file twice, then the unminimised scenario) before the
	// run is declared non-reproducing - which stays an infrastructure result, never a verdict.
	rout := filepath.Join(dir, fmt.Sprintf("replay-%d.jsonl", n))
	var r shardResult
	var oc struct {
		Class string `json:"class"`
	}
	for attempt := 0; attempt < 4; attempt++ {
		if attempt == 2 {
			orig := *f
			orig.Kind = "replay-file"
			bb, _ := json.MarshalIndent(map[string]any{"property": prop, "engine": eng, "index": orig.Index, "seed": orig.Seed, "outcome": orig.Outcome, "scenario": orig.Scenario}, "", " ")
			os.WriteFile(path, bb, 0o644)
		}
		cmd = exec.Command(bin, "-engine", eng, "-prop", prop, "-sites", filepath.Join(dir, "sites.json"), "-replay", path, "-o", rout)
		cmd.Env = workerEnv(dir, race, true)
		cmd.Stderr = os.Stderr
		cmd.Run()
		r = readShard(rout)
		oc.Class = ""
		if r.err == nil && len(r.fails) > 0 {
			json.Unmarshal(r.fails[0].Outcome, &oc)
		}
		if oc.Class != "" || !race {
			break
		}
	}
	if r.err != nil || len(r.fails) == 0 || oc.Class == "" {
		return path, false, true
	}
	// with report suppression off the replay lists all of its races: re-match against the listed findings
	if matchKnown(known, prop, &r.fails[0]) != nil {
		os.Remove(path)
		return path, true, false
	}
	if prop == "C06" {
		var mc struct {
			Class string `json:"class"`
		}
		json.Unmarshal(best.Outcome, &mc)
		if mc.Class == "history" || oc.Class == "history" {
			fmt.Printf("NOTE property=C06 run index=%d: the minimised failing execution has no preemption (sequential history dependence, decided by the C13 check); replay kept at %s\n", f.Index, path)
			return path, true, false
		}
		if matchKnown(known, "C13", &r.fails[0]) != nil {
			os.Remove(path)
			return path, true, false
		}
	}
	return path, true, true
}

func reproduces(dir string, spec propSpec, path string) bool {
	b, err := os.ReadFile(path)
	if err != nil {
		return false
	}
	var head struct {
		Engine   string `json:"engine"`
		Property string `json:"property"`
	}
	json.Unmarshal(b, &head)
	bin := filepath.Join(dir, "bin", "worker")
	race := head.Engine == "conc"
	if race {
		bin = filepath.Join(dir, "bin", "worker-race")
	}
	if head.Engine == "alloc" {
		bin = filepath.Join(dir, "bin", "worker-ny")
	}
	rout := filepath.Join(dir, "known-replay.jsonl")
	cmd := exec.Command(bin, "-engine", head.Engine, "-prop", head.Property, "-sites", filepath.Join(dir, "sites.json"), "-replay", path, "-o", rout)
	cmd.Env = workerEnv(dir, race, true)
	cmd.Run()
	r := readShard(rout)
	if r.err != nil || len(r.fails) == 0 {
		return false
	}
	var oc struct {
		Class string `json:"class"`
	}
	json.Unmarshal(r.fails[0].Outcome, &oc)
	return oc.Class != ""
}

func replay(path string) int {
	b, err := os.ReadFile(path)
	if err != nil {
		fatal("%v", err)
	}
	var head struct {
		Engine   string `json:"engine"`
		Property string `json:"property"`
	}
	json.Unmarshal(b, &head)
	needNoYield = head.Engine == "alloc"
	dir, cleanup := scratch()
	defer cleanup()
	os.MkdirAll(filepath.Join(dir, "logs"), 0o755)
	bin := filepath.Join(dir, "bin", "worker")
	race := head.Engine == "conc"
	if race {
		bin = filepath.Join(dir, "bin", "worker-race")
	}
	if head.Engine == "alloc" {
		bin = filepath.Join(dir, "bin", "worker-ny")
	}
	rout := filepath.Join(dir, "replay.jsonl")
	cmd := exec.Command(bin, "-engine", head.Engine, "-prop", head.Property, "-sites", filepath.Join(dir, "sites.json"), "-replay", path, "-o", rout)
	cmd.Env = workerEnv(dir, race, true)
	cmd.Stderr = os.Stderr
	cmd.Run()
	r := readShard(rout)
	if r.err != nil || len(r.fails) == 0 {
		fmt.Println("INFRASTRUCTURE replay produced no outcome")
		return 2
	}
	var oc map[string]any
	json.Unmarshal(r.fails[0].Outcome, &oc)
	pretty, _ := json.MarshalIndent(oc, "", " ")
	fmt.Println(string(pretty))
	if c, _ := oc["class"].(string); c != "" {
		fmt.Printf("VIOLATION property=%s replay=%s\n", head.Property, path)
		return 1
	}
	fmt.Println("replay: no violation reproduced")
	return 0
}

// ---- evidence ---------------------------------------------------------------

func sumF(sums []map[string]any, key string) float64 {
	t := 0.0
	for _, s := range sums {
		if v, ok := s[key].(float64); ok {
			t += v
		}
	}
	return t
}

func mergeCounts(sums []map[string]any, key string) map[string]int {
	out := map[string]int{}
	for _, s := range sums {
		if m, ok := s[key].(map[string]any); ok {
			for k, v := range m {
				if f, ok := v.(float64); ok {
					out[k] += int(f)
				}
			}
		}
	}
	return out
}

func writeEvidence(prop, tier string, seed uint64, sums []map[string]any, start time.Time, buildS float64, nsh, violations int, knownSeen map[string]int, deferred int, extra map[string]any, trouble string) {
	distinct := map[float64]bool{}
	states := map[float64]bool{}
	var samples []any
	extras := map[string]any{}
	for _, s := range sums {
		if l, ok := s["nontrivial_hashes"].([]any); ok {
			for _, h := range l {
				if f, ok := h.(float64); ok {
					distinct[f] = true
				}
			}
		}
		if l, ok := s["samples"].([]any); ok && len(samples) < 3 {
			samples = append(samples, l...)
		}
		if ex, ok := s["extra"].(map[string]any); ok {
			for k, v := range ex {
				switch k {
				case "abstract_states":
					if l, ok := v.([]any); ok {
						for _, h := range l {
							if f, ok := h.(float64); ok {
								states[f] = true
							}
						}
					}
				case "checked_calls", "gated_pure_divergence":
					if f, ok := v.(float64); ok {
						prev, _ := extras[k].(float64)
						extras[k] = prev + f
					}
				case "step_kinds", "shapes":
					m, _ := extras[k].(map[string]int)
					if m == nil {
						m = map[string]int{}
					}
					if mm, ok := v.(map[string]any); ok {
						for kk, vv := range mm {
							if f, ok := vv.(float64); ok {
								m[kk] += int(f)
							}
						}
					}
					extras[k] = m
				}
			}
		}
	}
	if len(samples) > 3 {
		samples = samples[:3]
	}
	runs := totalRuns(sums)
	wall := time.Since(start).Seconds()
	runWall := wall - buildS
	if runWall <= 0 {
		runWall = 1
	}
	cov := map[string]any{
		"evaluations":                runs,
		"distinct_nontrivial":        len(distinct),
		"samples":                    samples,
		"simulated_runs_per_hour":    int(float64(runs) / runWall * 3600),
		"seeds_per_hour":             int(float64(runs) / runWall * 3600),
		"worker_processes":           nsh,
		"build_seconds":              buildS,
		"failures_by_class":          mergeCounts(sums, "failures"),
		"strategies_covered":         mergeCounts(sums, "strategies"),
		"knob_usage":                 mergeCounts(sums, "knobs"),
		"probes":                     mergeCounts(sums, "probes"),
		"known_findings_observed":    knownSeen,
		"deferred_to_other_property": deferred,
		"components": map[string]any{
			"real": []string{"every coregex package (instrumented copy of /repo's working tree, source-identical except inserted simrt.Yield calls and the pool type)", "github.com/coregx/ahocorasick", "assembly kernels (atomic steps)", "sync/atomic", "Go race detector (C06)"},
			"stub": []string{"sync.Pool -> simrt.Pool (simulator-decided hit/miss/order/drop)", "goroutine scheduling -> simrt scheduler (one runnable worker, seeded hand-off)", "io.RuneReader sources -> simulated streams"},
		},
	}
	cells := mergeCounts(sums, "cells")
	cov["strategy_x_api_cells_covered"] = len(cells)
	switch props[prop].engine {
	case "conc":
		cov["rule"] = "one evaluation = one simulated concurrent run (seeded pattern+knobs+2..8 workers x 1..6 calls, seeded schedule policy and pool fault plan); non-trivial = at least one preemption (context switch inside library code while another call is in flight); distinct = distinct hash of (pattern, knobs, per-worker operations, schedule tape actually followed)"
		cov["simulated_time_steps"] = int64(sumF(sums, "steps"))
		cov["context_switches"] = int64(sumF(sums, "switches"))
		cov["preemptions"] = int64(sumF(sums, "preempts"))
		cov["schedule_policies"] = mergeCounts(sums, "policies")
		cov["step_budget_exceeded_runs"] = int(sumF(sums, "over_budget"))
		cov["yield_sites_visited_max_shard"] = maxF(sums, "sites_hit")
		cov["yield_sites_total"] = maxF(sums, "sites_total")
		funcReach(cov, sums)
		cov["faults_fired"] = map[string]int64{"pool_put_dropped": int64(sumF(sums, "pool_drops")), "pool_get_forced_miss": int64(sumF(sums, "pool_misses")), "pool_get_reordered": int64(sumF(sums, "pool_reorders")),
			"forced_preemption_at_site": int64(sumF(sums, "forced_fired")), "pool_gets": int64(sumF(sums, "pool_gets")), "pool_puts": int64(sumF(sums, "pool_puts")), "pool_news": int64(sumF(sums, "pool_news"))}
	case "history":
		cov["rule"] = "one evaluation = one seeded history (5..60 steps: checked calls, bursts, Longest/Copy/twin/POSIX, pool flushes, recovered callback panics, steered generation time-skips) on aged values, each checked call compared with a fresh value used once; non-trivial = some checked call was served by state that had served a different haystack before; distinct = distinct hash of (pattern, knobs, steps)"
		cov["abstract_recycled_states_observed"] = len(states)
		cov["faults_fired"] = map[string]int64{"pool_put_dropped": int64(sumF(sums, "pool_drops")), "pool_get_forced_miss": int64(sumF(sums, "pool_misses")), "pool_get_reordered": int64(sumF(sums, "pool_reorders")),
			"pool_gets": int64(sumF(sums, "pool_gets")), "pool_puts": int64(sumF(sums, "pool_puts")), "pool_news": int64(sumF(sums, "pool_news"))}
		cov["simulated_time_steps"] = extras["checked_calls"]
	case "stream":
		cov["rule"] = "one evaluation = one simulated rune stream (explicit ReadRune result list: runes, widths, injected errors with/without a rune, readers that resume after an error, dishonest widths) fed to both libraries (or to reader and string views of one value for C11); non-trivial = a fault fired before the end of the source or widths were dishonest, and the purity gate passed; distinct = distinct (fault-plan shape, strategy) pairs"
	}
	for k, v := range extras {
		cov[k] = v
	}
	for k, v := range extra {
		cov[k] = v
	}
	if trouble != "" {
		cov["trouble"] = trouble
	}
	if len(samples) == 0 {
		cov["samples"] = []any{map[string]any{"note": "no non-trivial sample recorded in this run"}}
	}
	ev := map[string]any{
		"property_id": prop, "tier": tier, "seed": int64(seed & 0x7fffffffffffffff), "level": "exploration", "coverage": cov, "wall_s": wall, "violations": violations,
		"assumptions": []string{"a clean batch is evidence, not proof: schedules, histories and streams are sampled from a seeded generator",
			"preemption granularity is one basic block of library code; assembly kernels and ahocorasick run as atomic steps",
			"the race detector's happens-before model (with the simulator's own hand-off hidden from it) is trusted for race reports",
			"hook-only knobs (lazy-DFA cache capacity, clear budget, visited cap) take values the lower-level public packages accept"},
	}
	os.MkdirAll(filepath.Join(verifDir, "evidence"), 0o755)
	b, _ := json.MarshalIndent(ev, "", " ")
	if err := os.WriteFile(filepath.Join(verifDir, "evidence", prop+".json"), b, 0o644); err != nil {
		fatal("writing evidence: %v", err)
	}
}

// siteFuncs is the list of instrumented library functions ("file:Func") of the
// scratch copy this run was built from (filled by check()).
var siteFuncs []string

// funcReach reports which library functions the simulated runs entered while the
// scheduler was active: a function nobody entered is code no schedule was explored in.
func funcReach(cov map[string]any, sums []map[string]any) {
	runs := mergeCounts(sums, "func_runs")
	if len(siteFuncs) == 0 {
		return
	}
	var never, rare []string
	entered := 0
	for _, f := range siteFuncs {
		if strings.Contains(f, "verif_hooks.go") {
			continue
		}
		n := runs[f]
		switch {
		case n == 0:
			never = append(never, f)
		case n < 5:
			rare = append(rare, fmt.Sprintf("%s (%d)", f, n))
			entered++
		default:
			entered++
		}
	}
	sort.Strings(never)
	sort.Strings(rare)
	cov["library_functions_instrumented"] = entered + len(never)
	cov["library_functions_entered_under_the_scheduler"] = entered
	cov["library_functions_never_entered"] = never
	cov["library_functions_entered_in_fewer_than_5_runs"] = rare
}

func loadSiteFuncs(dir string) {
	b, err := os.ReadFile(filepath.Join(dir, "sites.json"))
	if err != nil {
		return
	}
	var ss []struct {
		File string `json:"file"`
		Func string `json:"func"`
		Kind string `json:"kind"`
	}
	if json.Unmarshal(b, &ss) != nil {
		return
	}
	for _, s := range ss {
		if s.Kind == "func" {
			siteFuncs = append(siteFuncs, s.File+":"+s.Func)
		}
	}
}

func maxF(sums []map[string]any, key string) int {
	m := 0.0
	for _, s := range sums {
		if v, ok := s[key].(float64); ok && v > m {
			m = v
		}
	}
	return int(m)
}

// ---- determinism self-test ----------------------------------------------------

func selftest() int {
	dir, cleanup := scratch()
	defer cleanup()
	os.MkdirAll(filepath.Join(dir, "logs"), 0o755)
	bad := 0
	for _, eng := range []string{"conc", "history"} {
		spec := propSpec{engine: eng, race: eng == "conc"}
		prop := "C06"
		if eng == "history" {
			prop = "C13"
		}
		type key struct{ idx int }
		ref := map[int]float64{}
		n := 0
		for _, procs := range []int{1, 4, 16} {
			for rep := 0; rep < 3; rep++ {
				os.Setenv("GOMAXPROCS", fmt.Sprint(procs))
				r := runShard(dir, spec, prop, 7, 0, 96, "quick", 10*time.Minute, 100+n, "-loghashes")
				n++
				if r.err != nil {
					fmt.Fprintln(os.Stderr, r.err)
					return 2
				}
				lh, _ := r.summary["log_hashes"].(map[string]any)
				for k, v := range lh {
					i, _ := strconv.Atoi(k)
					f, _ := v.(float64)
					if prev, ok := ref[i]; ok && prev != f {
						fmt.Printf("DIVERGENCE engine=%s run index=%d GOMAXPROCS=%d\n", eng, i, procs)
						bad++
					}
					ref[i] = f
				}
			}
		}
		os.Unsetenv("GOMAXPROCS")
		keys := make([]int, 0, len(ref))
		for k := range ref {
			keys = append(keys, k)
		}
		sort.Ints(keys)
		fmt.Printf("selftest engine=%s: %d runs x 9 processes (GOMAXPROCS 1,4,16 x3) compared\n", eng, len(keys))
	}
	if bad > 0 {
		return 2
	}
	fmt.Println("selftest OK: every run's event-log hash identical in all processes")
	return 0
}
