package main

import (
	"fmt"
	"path/filepath"
	"sync"
	"time"
)

// l2Check runs the "l2" engine as a second stratum of the C13 check: histories on the
// recycled lazy-DFA caches themselves (one cache per DFA of a compiled engine kept across
// a seeded sequence of searches through every entry point meta uses on it), each call
// compared with the same call on a new cache.
func l2Check(dir string, seed uint64, tier string) (map[string]any, []failure, error) {
	total, wall := 16000, 40*time.Second
	if tier == "thorough" {
		total, wall = 1200000, 12*time.Minute
	}
	nsh := 16
	per := (total + nsh - 1) / nsh
	results := make([]shardResult, nsh)
	var wg sync.WaitGroup
	for k := 0; k < nsh; k++ {
		wg.Add(1)
		go func(k int) {
			defer wg.Done()
			spec := propSpec{engine: "l2"}
			results[k] = runShardBin(filepath.Join(dir, "bin", "worker"), dir, spec, "C13", seed, k*per, (k+1)*per, tier, wall, 300+k)
		}(k)
	}
	wg.Wait()
	var fails []failure
	runs := 0
	sums := map[string]int{}
	calls := map[string]int{}
	var samples []any
	distinct := map[float64]bool{}
	for k, r := range results {
		if r.err != nil {
			return nil, nil, fmt.Errorf("l2 shard %d: %v", k, r.err)
		}
		fails = append(fails, r.fails...)
		if v, ok := r.summary["runs"].(float64); ok {
			runs += int(v)
		}
		if ex, ok := r.summary["extra"].(map[string]any); ok {
			for _, key := range []string{"l2_checked_calls", "l2_gave_up_not_compared", "l2_pure_divergence", "l2_histories_with_cache_clear"} {
				if v, ok := ex[key].(float64); ok {
					sums[key] += int(v)
				}
			}
			if m, ok := ex["l2_role_x_call"].(map[string]any); ok {
				for kk, vv := range m {
					if f, ok := vv.(float64); ok {
						calls[kk] += int(f)
					}
				}
			}
		}
		if l, ok := r.summary["nontrivial_hashes"].([]any); ok {
			for _, h := range l {
				if f, ok := h.(float64); ok {
					distinct[f] = true
				}
			}
		}
		if l, ok := r.summary["samples"].([]any); ok && len(samples) < 2 {
			samples = append(samples, l...)
		}
	}
	ev := map[string]any{"l2_engine_runs": runs, "l2_distinct_histories_with_a_cache_clear": len(distinct), "l2_role_x_call_counts": calls, "l2_engine_samples": samples,
		"l2_engine_note": "second stratum of this check: one lazy.DFACache per lazy DFA of the compiled engine (forward, reverse, the reverse searchers' own) reused across 6..60 (thorough: ..150) searches through Find/FindAt/SearchAt/SearchAtAnchored/IsMatch/IsMatchAt/SearchReverse/SearchReverseLimited/TryIsMatchReverse with capacities from 200 bytes to the default; oracle = the same call on a new cache; a call in which either side declines to answer (documented give-up codes) is not compared; an answer that equals what a new default-capacity cache or the DFA's NFA fallback gives is counted as pure engine divergence"}
	for k, v := range sums {
		ev[k] = v
	}
	return ev, fails, nil
}
