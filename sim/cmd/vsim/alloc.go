package main

func allocCheck(dir string, seed uint64, tier string) (map[string]any, []failure, error) {
	return nil, nil, nil
}
