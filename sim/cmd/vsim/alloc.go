package main

import (
	"fmt"
	"path/filepath"
	"sync"
	"time"
)

// allocCheck runs the alloc engine (C20: zero-allocation calls, footprint plateau,
// heap plateau) in worker processes built from the pool-seam-only copy.
func allocCheck(dir string, seed uint64, tier string) (map[string]any, []failure, error) {
	total, wall := 1600, 90*time.Second
	if tier == "thorough" {
		total, wall = 40000, 25*time.Minute
	}
	nsh := 16
	per := (total + nsh - 1) / nsh
	results := make([]shardResult, nsh)
	var wg sync.WaitGroup
	for k := 0; k < nsh; k++ {
		wg.Add(1)
		go func(k int) {
			defer wg.Done()
			spec := propSpec{engine: "alloc"}
			results[k] = runShardBin(filepath.Join(dir, "bin", "worker-ny"), dir, spec, "C20", seed, k*per, (k+1)*per, tier, wall, 200+k)
		}(k)
	}
	wg.Wait()
	var fails []failure
	runs, zero, cycles := 0, 0, 0
	var samples []any
	for k, r := range results {
		if r.err != nil {
			return nil, nil, fmt.Errorf("alloc shard %d: %v", k, r.err)
		}
		fails = append(fails, r.fails...)
		if v, ok := r.summary["runs"].(float64); ok {
			runs += int(v)
		}
		if ex, ok := r.summary["extra"].(map[string]any); ok {
			if v, ok := ex["zero_alloc_measurements"].(float64); ok {
				zero += int(v)
			}
			if v, ok := ex["plateau_cycles"].(float64); ok {
				cycles += int(v)
			}
		}
		if l, ok := r.summary["samples"].([]any); ok && len(samples) < 2 {
			samples = append(samples, l...)
		}
	}
	ev := map[string]any{"alloc_engine_runs": runs, "zero_alloc_measurements": zero, "plateau_cycles_executed": cycles, "alloc_engine_samples": samples,
		"alloc_engine_note": "I5 (zero allocation after warm-up, fault-free pool, default cache capacity), I3 (recycled-state footprint plateau) and I4 (heap plateau, threshold +4 MB and x2) measured in a build with the pool seam only (no yield calls)"}
	return ev, fails, nil
}
