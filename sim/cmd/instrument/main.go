// Command instrument rewrites the non-test Go files of the given package
// directories of a scratch copy of coregex in place:
//
//   - simrt.Yield(<site>) after the '{' of every function/closure body, for/range
//     body, if/else block and bare block, and after the ':' of every case clause;
//   - every `sync.Pool` type expression becomes `simrt.Pool`;
//   - the simrt import is appended to the package clause line.
//
// Patches are inserted at token offsets on the same line, so line numbers of the
// original source survive in stack traces and race reports.
package main

import (
	"encoding/json"
	"flag"
	"fmt"
	"go/ast"
	"go/parser"
	"go/token"
	"os"
	"path/filepath"
	"sort"
	"strings"
)

type Site struct {
	ID   int    `json:"id"`
	File string `json:"file"`
	Line int    `json:"line"`
	Func string `json:"func"`
	Kind string `json:"kind"`
}

type patch struct {
	off  int
	del  int
	text string
}

const simrtImport = `github.com/coregx/coregex/simrt`

func main() {
	root := flag.String("root", "", "root of the scratch copy")
	pk := flag.String("pkgs", ".,meta,nfa,dfa/lazy,dfa/onepass,prefilter,literal,internal/sparse", "comma separated package dirs relative to root")
	out := flag.String("sites", "", "write site table (json) here")
	noYield := flag.Bool("noyield", false, "only replace sync.Pool, insert no yields")
	flag.Parse()
	if *root == "" {
		fmt.Fprintln(os.Stderr, "usage: instrument -root DIR [-pkgs a,b] [-sites file]")
		os.Exit(2)
	}
	var sites []Site
	// site ids 0..15 are reserved for simrt itself (pool get/put, ...)
	next := 16
	for _, d := range strings.Split(*pk, ",") {
		dir := filepath.Join(*root, d)
		ents, err := os.ReadDir(dir)
		if err != nil {
			fmt.Fprintln(os.Stderr, "instrument:", err)
			os.Exit(2)
		}
		var files []string
		for _, e := range ents {
			n := e.Name()
			if e.IsDir() || !strings.HasSuffix(n, ".go") || strings.HasSuffix(n, "_test.go") {
				continue
			}
			files = append(files, n)
		}
		sort.Strings(files)
		for _, f := range files {
			rel := filepath.ToSlash(filepath.Join(d, f))
			s, err := instrumentFile(filepath.Join(dir, f), rel, &next, *noYield)
			if err != nil {
				fmt.Fprintln(os.Stderr, "instrument:", rel, err)
				os.Exit(2)
			}
			sites = append(sites, s...)
		}
	}
	if *out != "" {
		b, _ := json.Marshal(sites)
		if err := os.WriteFile(*out, b, 0o644); err != nil {
			fmt.Fprintln(os.Stderr, "instrument:", err)
			os.Exit(2)
		}
	}
	fmt.Printf("instrumented: %d yield sites\n", len(sites))
}

func instrumentFile(path, rel string, next *int, noYield bool) ([]Site, error) {
	src, err := os.ReadFile(path)
	if err != nil {
		return nil, err
	}
	fset := token.NewFileSet()
	f, err := parser.ParseFile(fset, path, src, parser.ParseComments)
	if err != nil {
		return nil, err
	}
	var patches []patch
	var sites []Site
	usesSimrt := false
	off := func(p token.Pos) int { return fset.Position(p).Offset }

	addYield := func(after token.Pos, width int, fn, kind string) {
		if noYield {
			return
		}
		id := *next
		*next++
		sites = append(sites, Site{ID: id, File: rel, Line: fset.Position(after).Line, Func: fn, Kind: kind})
		patches = append(patches, patch{off: off(after) + width, text: fmt.Sprintf(" simrt.Yield(%d);", id)})
		usesSimrt = true
	}

	// addSyncYields puts a preemption point *before* every statement of a statement
	// list that performs a synchronisation operation itself (not in a nested block):
	// an atomic Load/Store/Swap/CompareAndSwap/Add, a sync/atomic call, a pool Get/Put,
	// a Lock/Unlock. Block-level yields alone cannot separate two such operations in
	// straight-line code (check-then-act over atomics, unlock-then-publish), and the
	// race detector says nothing about atomics.
	addSyncYields := func(list []ast.Stmt, fn string) {
		if noYield {
			return
		}
		for _, st := range list {
			switch st.(type) {
			case *ast.BlockStmt, *ast.CaseClause, *ast.CommClause:
				continue
			}
			if lb, ok := st.(*ast.LabeledStmt); ok {
				// `L: simrt.Yield(); for ...` would detach the label from its loop
				_ = lb
				continue
			}
			if !shallowHasSyncOp(st) || isStatsCounter(st) {
				continue
			}
			id := *next
			*next++
			sites = append(sites, Site{ID: id, File: rel, Line: fset.Position(st.Pos()).Line, Func: fn, Kind: "sync"})
			patches = append(patches, patch{off: off(st.Pos()), text: fmt.Sprintf("simrt.Yield(%d); ", id)})
			usesSimrt = true
		}
	}

	var walkFn func(n ast.Node, fn string)
	walkFn = func(root ast.Node, fn string) {
		ast.Inspect(root, func(n ast.Node) bool {
			switch x := n.(type) {
			case *ast.FuncLit:
				if x != root {
					addYield(x.Body.Lbrace, 1, fn, "closure")
					walkFn(x.Body, fn)
					return false
				}
			case *ast.ForStmt:
				addYield(x.Body.Lbrace, 1, fn, "for")
			case *ast.RangeStmt:
				addYield(x.Body.Lbrace, 1, fn, "range")
			case *ast.IfStmt:
				addYield(x.Body.Lbrace, 1, fn, "if")
				if b, ok := x.Else.(*ast.BlockStmt); ok {
					addYield(b.Lbrace, 1, fn, "else")
				}
			case *ast.CaseClause:
				addYield(x.Colon, 1, fn, "case")
				addSyncYields(x.Body, fn)
			case *ast.CommClause:
				addYield(x.Colon, 1, fn, "comm")
			case *ast.BlockStmt:
				// bare blocks are statements inside another block's list; those are
				// found through their parent below.
				for _, st := range x.List {
					if b, ok := st.(*ast.BlockStmt); ok {
						addYield(b.Lbrace, 1, fn, "block")
					}
				}
				addSyncYields(x.List, fn)
			case *ast.SelectorExpr:
				if id, ok := x.X.(*ast.Ident); ok && id.Name == "sync" {
					switch x.Sel.Name {
					case "Pool", "Mutex", "RWMutex":
						patches = append(patches, patch{off: off(x.Pos()), del: off(x.End()) - off(x.Pos()), text: "simrt." + x.Sel.Name})
						usesSimrt = true
					}
				}
			}
			return true
		})
	}

	for _, d := range f.Decls {
		switch x := d.(type) {
		case *ast.FuncDecl:
			if x.Body == nil {
				continue
			}
			if hasDirective(x.Doc, "go:nosplit") || hasDirective(x.Doc, "go:norace") {
				// still replace pools inside, but add no yields: treat as plain walk
				saved := noYield
				noYield = true
				walkFn(x.Body, "")
				noYield = saved
				continue
			}
			name := x.Name.Name
			if x.Recv != nil && len(x.Recv.List) > 0 {
				name = recvName(x.Recv.List[0].Type) + "." + name
			}
			addYield(x.Body.Lbrace, 1, name, "func")
			walkFn(x.Body, name)
		case *ast.GenDecl:
			// package-level vars/types may mention sync.Pool or hold closures
			walkFn(x, "<pkg>")
		}
	}
	if !usesSimrt {
		return nil, nil
	}
	// import on the package clause line
	patches = append(patches, patch{off: off(f.Name.End()), text: `; import simrt "` + simrtImport + `"`})
	importsSync := false
	for _, im := range f.Imports {
		if im.Path.Value == `"sync"` && im.Name == nil {
			importsSync = true
		}
	}
	sort.SliceStable(patches, func(i, j int) bool { return patches[i].off > patches[j].off })
	out := append([]byte(nil), src...)
	for _, p := range patches {
		out = append(out[:p.off], append([]byte(p.text), out[p.off+p.del:]...)...)
	}
	if importsSync {
		out = append(out, []byte("\nvar _ sync.Locker\n")...)
	}
	out = append(out, []byte("\nvar _ = simrt.Yield\n")...)
	return sites, os.WriteFile(path, out, 0o644)
}

var syncMethods = map[string]bool{"Load": true, "Store": true, "Swap": true, "CompareAndSwap": true, "Add": true, "And": true, "Or": true,
	"Get": true, "Put": true, "Lock": true, "Unlock": true, "RLock": true, "RUnlock": true, "TryLock": true, "TryRLock": true, "Do": true, "Wait": true, "Done": true}

// shallowHasSyncOp reports whether st itself (its expressions, an if/for/switch
// header, but not nested blocks or function literals) calls something that looks
// like a synchronisation operation. Purely syntactic: a false positive only adds a
// preemption point.
func shallowHasSyncOp(st ast.Stmt) bool {
	found := false
	ast.Inspect(st, func(n ast.Node) bool {
		if found {
			return false
		}
		switch x := n.(type) {
		case *ast.BlockStmt, *ast.FuncLit:
			return false
		case *ast.CallExpr:
			if sel, ok := x.Fun.(*ast.SelectorExpr); ok {
				if id, ok := sel.X.(*ast.Ident); ok && id.Name == "atomic" {
					found = true
					return false
				}
				if syncMethods[sel.Sel.Name] {
					// Add/And/Or/Get/Put/Do/Wait/Done are common names: require a receiver
					// that is a field or variable path, not a package-qualified function
					switch sel.Sel.Name {
					case "Load", "Store", "Swap", "CompareAndSwap", "Lock", "Unlock", "RLock", "RUnlock", "TryLock", "TryRLock":
						found = true
						return false
					case "Get", "Put":
						if strings.Contains(strings.ToLower(exprString(sel.X)), "pool") {
							found = true
							return false
						}
					case "Add", "And", "Or", "Do", "Wait", "Done":
						if len(x.Args) <= 1 {
							low := strings.ToLower(exprString(sel.X))
							if strings.Contains(low, "once") || strings.Contains(low, "wg") || strings.Contains(low, "count") || strings.Contains(low, "atomic") || strings.Contains(low, "stat") {
								found = true
								return false
							}
						}
					}
				}
			}
		}
		return true
	})
	return found
}

// isStatsCounter recognises `atomic.AddUint64(&e.stats.X, 1)` statements: they are
// synchronisation operations, but on a write-only statistic; a preemption point
// before each of the ~150 of them would only dilute the hot-site set.
func isStatsCounter(st ast.Stmt) bool {
	es, ok := st.(*ast.ExprStmt)
	if !ok {
		return false
	}
	call, ok := es.X.(*ast.CallExpr)
	if !ok || len(call.Args) == 0 {
		return false
	}
	sel, ok := call.Fun.(*ast.SelectorExpr)
	if !ok {
		return false
	}
	if id, ok := sel.X.(*ast.Ident); !ok || id.Name != "atomic" || !strings.HasPrefix(sel.Sel.Name, "Add") {
		return false
	}
	return strings.Contains(strings.ToLower(exprString(call.Args[0])), "stat")
}

func exprString(e ast.Expr) string {
	switch x := e.(type) {
	case *ast.Ident:
		return x.Name
	case *ast.SelectorExpr:
		return exprString(x.X) + "." + x.Sel.Name
	case *ast.StarExpr:
		return exprString(x.X)
	case *ast.ParenExpr:
		return exprString(x.X)
	case *ast.IndexExpr:
		return exprString(x.X)
	case *ast.UnaryExpr:
		return exprString(x.X)
	case *ast.CallExpr:
		return exprString(x.Fun)
	}
	return ""
}

func hasDirective(cg *ast.CommentGroup, d string) bool {
	if cg == nil {
		return false
	}
	for _, c := range cg.List {
		if strings.HasPrefix(c.Text, "//"+d) {
			return true
		}
	}
	return false
}

func recvName(e ast.Expr) string {
	switch x := e.(type) {
	case *ast.StarExpr:
		return recvName(x.X)
	case *ast.Ident:
		return x.Name
	case *ast.IndexExpr:
		return recvName(x.X)
	case *ast.IndexListExpr:
		return recvName(x.X)
	}
	return "?"
}
