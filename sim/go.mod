module verifsim

go 1.25.4
