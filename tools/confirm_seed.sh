#!/bin/sh
# usage: confirm_seed.sh <seed-name>
# Confirms a seeded change in a scratch worktree of /repo's HEAD: the demonstration passes
# without the patch, the patch applies and builds, the demonstration fails with it, and the
# repository's own suite still passes with it. Prints one summary line; removes the worktree.
seed="$1"
V=/verif
export GOFLAGS=-mod=mod GOPROXY=off
wt=/tmp/wt/confirm-$seed
rm -rf "$wt"; git -C /repo worktree prune
git -C /repo worktree add --detach "$wt" HEAD -q || exit 2
mkdir -p "$wt/_seed/demo"; cp "$V/seeded/$seed/demo/"*.go "$wt/_seed/demo/"
p="$V/seeded/$seed/patch.ported.diff"; [ -f "$p" ] || p="$V/seeded/$seed/patch.diff"
cd "$wt"
if go test -vet=off -count=1 -timeout 10m ./_seed/demo/ >"$wt.demo0.log" 2>&1; then d0=pass; else d0=FAIL; fi
if git apply "$p" 2>"$wt.apply.log"; then ap=ok; else ap=FAIL; fi
if go build ./... >"$wt.build.log" 2>&1; then b=ok; else b=FAIL; fi
if go test -vet=off -count=1 -timeout 10m ./_seed/demo/ >"$wt.demo1.log" 2>&1; then d1=PASS; else d1=fail; fi
if go test -vet=off -count=1 -timeout 25m $(go list ./... | grep -v _seed) >"$wt.suite.log" 2>&1; then s=pass; else s=FAIL; fi
echo "CONFIRM seed=$seed demo_without=$d0 apply=$ap build=$b demo_with=$d1 suite_with=$s"
[ "$s" = FAIL ] && grep -E "^(--- FAIL|FAIL|panic)" "$wt.suite.log" | head -5
cd /; git -C /repo worktree remove --force "$wt"
