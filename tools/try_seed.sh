#!/bin/sh
# usage: try_seed.sh <seed-name> <property>...
# Applies /verif/seeded/<seed>/patch(.ported).diff to a scratch worktree of /repo's HEAD
# and runs the quick checks of the given properties against it (VERIF_REPO), leaving
# /repo untouched. Evidence/replays of these runs go to a scratch VERIF_DIR copy.
set -e
seed="$1"; shift
V=/verif
wt=/tmp/wt/try-$seed
rm -rf "$wt"; git -C /repo worktree prune
git -C /repo worktree add --detach "$wt" HEAD -q
p="$V/seeded/$seed/patch.ported.diff"; [ -f "$p" ] || p="$V/seeded/$seed/patch.diff"
git -C "$wt" apply "$p"
out=/tmp/wt/try-$seed.out; mkdir -p "$out/evidence" "$out/replays"
cp $V/known_findings.json $V/mkscratch.sh "$out/"; ln -sfn $V/bin "$out/bin"; ln -sfn $V/sim "$out/sim"; cp -r $V/replays/. "$out/replays/" 2>/dev/null || true
for prop in "$@"; do
  echo "=== seed=$seed property=$prop"
  VERIF_REPO="$wt" VERIF_DIR="$out" $V/bin/vsim check "$prop" --tier quick 2>&1 | grep -v "^KNOWN-FINDING" | cut -c1-300 | tail -5 || true
done
git -C /repo worktree remove --force "$wt"
