#!/bin/sh
# usage: reach.sh <engine: history|stream|conc> <prop> <runs> [out-file]
# Development aid (not a check): builds the worker with Go's coverage instrumentation over
# every coregex package, executes <runs> seeded runs of one engine on /repo's working tree
# and lists the library functions with 0% statement coverage - code the generated
# histories / streams never reached - plus per-function percentages.
set -e
eng="$1"; prop="$2"; runs="${3:-2000}"; out="${4:-/dev/stdout}"
V=/verif
export GOFLAGS=-mod=mod GOPROXY=off
S=$(mktemp -d /var/tmp/reach-XXXX)
trap 'rm -rf "$S"' EXIT
"$V/mkscratch.sh" "$S" >/dev/null 2>&1
cd "$S/worker"
go build -cover -coverpkg=all -tags verif -o "$S/bin/worker-cov" . 2>/dev/null
mkdir -p "$S/cov" "$S/logs"
per=$(( (runs + 7) / 8 ))
for k in 0 1 2 3 4 5 6 7; do
  GOCOVERDIR="$S/cov" "$S/bin/worker-cov" -engine "$eng" -prop "$prop" -seed 1 -from $((k*per)) -to $(((k+1)*per)) -tier quick -sites "$S/sites.json" -budget 600s -o "$S/out-$k.jsonl" &
done
wait
go tool covdata func -i="$S/cov" | grep "github.com/coregx/coregex/" | sed "s|github.com/coregx/coregex/||" | grep -v "simrt/\|verif_hooks" > "$S/func.txt"
{
  echo "# engine=$eng prop=$prop runs=$runs"
  echo "# functions: $(wc -l < "$S/func.txt"), with 0% coverage: $(grep -cE "\s0\.0%$" "$S/func.txt")"
  echo "# functions with 0% coverage:"
  grep -E "\s0\.0%$" "$S/func.txt" | awk '{print $1, $2}'
} > "$out"
