#!/bin/sh
# Runs every seeded change against the quick check(s) that should catch it.
cd /verif
run() { tools/try_seed.sh "$@" 2>&1 | grep -E "^===|VIOLATION|^OK|INFRA" | cut -c1-160 | awk '/^===/{h=$0; next} {print h " -> " $0; exit}'; }
run rdr-err-rune C02
run rdr-skew-offbyone C03
run c10-copy-shares-engine C10
run c10-pooled-mode-stale C10
run c13-slot-table-width C13
run c13-statekey-collision C13
run c13-onepass-touched C13
run c13-clear-continue C13
run c20-visited-geometric C20
run c20-cache-accounting-drift C20
run c20-trim-idle C20
run c06-bidir-state-double-put C06
run c06-revsuffix-double-put C06
run c06-ismatchnfa-early-put C06
