#!/bin/sh
# usage: harvest.sh <worktree-name under /tmp/wt> <seed-id>
# Copies a sub-agent's result (_seed/patch.diff, _seed/NOTES.md, _seed/demo/*.go) into
# /verif/seeded/<seed-id>/ and removes the agent's scratch worktree.
set -e
wt=/tmp/wt/$1; id=$2; d=/verif/seeded/$id
mkdir -p "$d/demo"
( cd "$wt" && git diff -- . ':(exclude)_seed' ) > "$d/patch.diff"
[ -s "$d/patch.diff" ] || cp "$wt/_seed/patch.diff" "$d/patch.diff"
cp "$wt/_seed/NOTES.md" "$d/NOTES.md" 2>/dev/null || true
cp "$wt"/_seed/demo/*.go "$d/demo/"
git -C /repo worktree remove --force "$wt"
ls -la "$d" "$d/demo"
