#!/bin/sh
# Builds the driver and the instrumenter from /verif/sim (stdlib only), offline.
set -e
cd "$(dirname "$0")"
export GOFLAGS=-mod=mod GOPROXY=off
mkdir -p bin evidence replays
(cd sim && go build -o ../bin/vsim ./cmd/vsim && go build -o ../bin/instrument ./cmd/instrument)
echo "setup ok"
