#!/bin/sh
# usage: mkscratch.sh <scratch-dir>
# Builds, from /repo's current working tree, an instrumented copy and the two worker
# binaries (<dir>/bin/worker-race, <dir>/bin/worker) plus the site table <dir>/sites.json.
set -e
S="$1"
V="$(cd "$(dirname "$0")" && pwd)"
export GOFLAGS=-mod=mod GOPROXY=off
mkdir -p "$S"
REPO="${VERIF_REPO:-/repo}"
rsync -a --delete --exclude .git --exclude '_seed' "$REPO/" "$S/repo/"
mkdir -p "$S/repo/simrt"
cp "$V"/sim/simrt/*.go "$S/repo/simrt/"
"$V/bin/instrument" -root "$S/repo" -sites "$S/sites.json" >/dev/null
rm -rf "$S/worker"; mkdir -p "$S/worker"
cp "$V"/sim/worker/*.go "$S/worker/"
cat > "$S/worker/go.mod" <<EOM
module verifworker

go 1.25.4

require github.com/coregx/coregex v0.0.0

replace github.com/coregx/coregex => $S/repo
EOM
cp "$REPO/go.sum" "$S/worker/go.sum"
cd "$S/worker"
mkdir -p "$S/bin"; go build -tags verif -o "$S/bin/worker" .
go build -race -tags verif -o "$S/bin/worker-race" .
if [ -n "$VSIM_NOYIELD" ]; then
  # allocation measurements need the code as the compiler normally sees it: a copy
  # with the pool seam only (no yield calls, so inlining and escape analysis are
  # those of the real tree)
  rsync -a --delete --exclude .git --exclude '_seed' "$REPO/" "$S/repo-ny/"
  mkdir -p "$S/repo-ny/simrt"; cp "$V"/sim/simrt/*.go "$S/repo-ny/simrt/"
  "$V/bin/instrument" -root "$S/repo-ny" -noyield >/dev/null
  rm -rf "$S/worker-ny"; mkdir -p "$S/worker-ny"; cp "$V"/sim/worker/*.go "$S/worker-ny/"
  sed "s|$S/repo|$S/repo-ny|" "$S/worker/go.mod" > "$S/worker-ny/go.mod"; cp "$REPO/go.sum" "$S/worker-ny/go.sum"
  (cd "$S/worker-ny" && go build -tags verif -o "$S/bin/worker-ny" .)
fi
